"""Coverage-guided campaign for C11 (thorough tier only): atheris / libFuzzer drives Domain B's structured mutator with
SEQUENCES of up to 4 mutations of one corpus file (Hypothesis' Domain B applies a single one), instrumenting prov.*.
The oracle is C11's own check (library load vs independent reader, stability under rewrite); the target aborts on the first
violation and writes the decoded case as a replay file.  usage: python -m pbt.fuzz_c11 <out dir> <seed> <runs>"""
import json
import os
import sys


def main():
    out, seed, runs = sys.argv[1], int(sys.argv[2]), int(sys.argv[3])
    root = os.path.dirname(os.path.dirname(os.path.abspath(__file__)))
    sys.path.insert(0, os.path.join(root, ".deps"))
    sys.path.insert(0, os.environ.get("PROV_SRC", "/repo/src"))
    sys.path.insert(0, root)
    import logging
    import warnings
    logging.disable(logging.CRITICAL)
    warnings.simplefilter("ignore")
    import atheris
    with atheris.instrument_imports(include=["prov"]):
        import prov.model  # noqa
        import prov.serializers.provjson  # noqa
        import prov.serializers.provxml  # noqa
    from pbt.props import c11
    from pbt.runner import Ctx
    os.makedirs(out, exist_ok=True)
    ctx = Ctx()
    ctx.workdir = out
    stats = {"execs": 0, "applied": 0, "features": {}}
    seen = set()
    MUTS_J = ["reorder", "wrap", "kind", "rename_prefix", "move_prefix"]
    MUTS_X = ["comments", "whitespace"]

    def one(data):
        fdp = atheris.FuzzedDataProvider(data)
        fmt = "json" if fdp.ConsumeIntInRange(0, 9) < 8 else "xml"
        files = c11.corpus(fmt)
        idx = fdp.ConsumeIntInRange(0, len(files) - 1)
        n = fdp.ConsumeIntInRange(1, 4)
        steps = []
        for _ in range(n):
            steps.append(((MUTS_J if fmt == "json" else MUTS_X)[fdp.ConsumeIntInRange(0, (5 if fmt == "json" else 2) - 1)],
                          [fdp.ConsumeIntInRange(0, 50) for _ in range(3)]))
        with open(files[idx], encoding="utf-8") as f:
            text = f.read()
        applied = []
        for mut, sel in steps:
            try:
                t2 = c11.mutate_json(text, mut, sel, ctx) if fmt == "json" else c11.mutate_xml(text, mut, sel)
            except Exception:
                t2 = None
            if t2 is not None:
                text = t2
                applied.append([mut, sel])
        stats["execs"] += 1
        if stats["execs"] % 250 == 0 or stats["execs"] >= runs - 1:
            # libFuzzer leaves through exit(): keep the statistics on disk as we go
            with open(os.path.join(out, "stats.json"), "w") as f:
                json.dump({"execs": stats["execs"], "applied": stats["applied"], "distinct_texts": len(seen), "classes": dict(ctx.classes)}, f)
        if not applied:
            return
        seen.add(hash(text))
        stats["applied"] += 1
        case = {"mode": "T", "fmt": fmt, "text": text, "file": os.path.basename(files[idx]), "applied": applied}
        items = c11.check(case, ctx)
        if items:
            h = abs(hash(text)) % (10 ** 8)
            with open(os.path.join(out, "violation-%d.json" % h), "w") as f:
                json.dump({"property": "C11", "case": case, "diff": items[:5], "bucket": "+".join(sorted({i["b"] for i in items}))}, f, indent=1, default=str)
            raise RuntimeError("C11 violation: %s" % items[0]["b"])

    atheris.Setup([sys.argv[0], "-runs=%d" % runs, "-seed=%d" % seed, "-max_len=64", "-print_final_stats=0",
                   "-artifact_prefix=" + out + os.sep, os.path.join(out, "corpus")], one)
    os.makedirs(os.path.join(out, "corpus"), exist_ok=True)
    atheris.Fuzz()


if __name__ == "__main__":
    main()
