"""Shared driver for history properties: a Hypothesis RuleBasedStateMachine whose rules only *draw* abstract,
JSON-serialisable operations; a plain interpreter (the property module's `new_state` / `apply`) executes
them against the library and the reference model.  The history is the case: it is what gets hashed,
sampled, saved as replay file and re-run by `check(case)` without Hypothesis."""
import traceback

from hypothesis import HealthCheck, Verbosity, seed as hseed, settings, Phase
from hypothesis.stateful import RuleBasedStateMachine, run_state_machine_as_test

from . import runner


def machine_base(mod, ctx, findings, reported):
    class HistoryMachine(RuleBasedStateMachine):
        def __init__(self):
            super().__init__()
            self.history = []
            self.state = mod.new_state()
            self.dead = False

        def do(self, op):
            if ctx.harness_error is not None or self.dead:
                return
            self.history.append(op)
            try:
                items = mod.apply(self.state, op, ctx)
            except (runner.Violation, runner.HarnessError):
                raise
            except Exception as e:  # noqa
                if runner.from_library(e):
                    items = [runner.exc_item(e, "unexpected")]
                else:
                    ctx.harness_error = "".join(traceback.format_exception(type(e), e, e.__traceback__))[-4000:] + \
                        "\nHISTORY: " + str(self.history)[:3000]
                    return
            ctx.count("steps")
            if ctx.last_failure is not None:
                ctx.fail_calls += 1
            if items:
                self.dead = True   # a failed history is not continued (the invariant would fail again)
                runner.judge(mod, {"history": list(self.history)}, items, ctx, findings, reported)

        def teardown(self):
            if ctx.harness_error is not None:
                return
            ctx.evaluations += 1
            case = {"history": list(self.history)}
            if self.history and mod.history_nontrivial(self.state, ctx):
                ctx.nontrivial_hashes.add(runner.case_hash(case))
                if len(ctx.samples) < 3 and ctx.evaluations % 11 == 0:
                    ctx.samples.append(case)

    return HistoryMachine


def run_machine(mod, make_machine, n_examples, steps, seed, ctx, findings, reported, failures, max_buckets=2):
    # histories need more shrink steps than single documents; modules with expensive steps set their own cap
    ctx.shrink_cap = getattr(mod, "SHRINK_CAP", {}).get(getattr(ctx, "tier", "quick"), max(ctx.shrink_cap, 2500))
    if getattr(ctx, "tier", "quick") == "quick":
        max_buckets = 1          # one shrunk bucket per shard in the quick tier
    for attempt in range(max_buckets + 1):
        if len(failures) >= max_buckets or ctx.harness_error:
            break
        Machine = make_machine(machine_base(mod, ctx, findings, reported))
        st = settings(max_examples=n_examples, stateful_step_count=steps, deadline=None, database=None,
                      derandomize=False, report_multiple_bugs=False, print_blob=False, verbosity=Verbosity.quiet,
                      phases=[Phase.explicit, Phase.reuse, Phase.generate, Phase.target, Phase.shrink],
                      suppress_health_check=list(HealthCheck))
        try:
            run_state_machine_as_test(hseed(seed)(Machine), settings=st)
            break
        except runner.Violation:
            case, items, bucket = ctx.last_failure
            failures.append({"case": case, "items": items, "bucket": bucket})
            reported.add(bucket)
            ctx.last_failure = None
            ctx.fail_calls = 0
            ctx.failing_hashes = set()
        except Exception as e:  # noqa
            if ctx.last_failure is not None and ctx.harness_error is None:
                # e.g. Hypothesis' Flaky error: the recorded history did produce a real diff at least once
                case, items, bucket = ctx.last_failure
                failures.append({"case": case, "items": items + [{"b": "note:outcome_varies_between_runs"}], "bucket": bucket})
                reported.add(bucket)
                ctx.last_failure = None
                ctx.fail_calls = 0
                ctx.failing_hashes = set()
                continue
            ctx.harness_error = "".join(traceback.format_exception(type(e), e, e.__traceback__))[-4000:]
            break


def check_history(mod, case, ctx):
    """plain re-execution of a history (replay files, known-finding witnesses)"""
    state = mod.new_state()
    for op in case["history"]:
        items = mod.apply(state, op, ctx)
        if items:
            return items
    ctx.nontrivial(mod.history_nontrivial(state, ctx))
    return []
