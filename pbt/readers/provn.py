"""Independent PROV-N reader, written from the W3C PROV-N Recommendation (grammar in DESIGN.md appendix D).
Imports nothing from `prov`.  parse(text) -> (Counter of canonical records, {bundle uri: Counter}) in the
shape of pbt.canon.canon(); raises ProvNSyntaxError on text the grammar rejects."""
import re
from collections import Counter

PROV = "http://www.w3.org/ns/prov#"
XSD = "http://www.w3.org/2001/XMLSchema#"


class ProvNSyntaxError(Exception):
    pass


# expression name -> (type local name, is element, [(arg, 'ref'|'time')], number of leading args that must not be '-',
#                     number of args that must be written)
EXPR = {
    "entity": ("Entity", True, [], 0, 0),
    "activity": ("Activity", True, [("startTime", "time"), ("endTime", "time")], 0, 0),
    "agent": ("Agent", True, [], 0, 0),
    "wasGeneratedBy": ("Generation", False, [("entity", "ref"), ("activity", "ref"), ("time", "time")], 1, 1),
    "used": ("Usage", False, [("activity", "ref"), ("entity", "ref"), ("time", "time")], 1, 1),
    "wasInformedBy": ("Communication", False, [("informed", "ref"), ("informant", "ref")], 2, 2),
    "wasStartedBy": ("Start", False, [("activity", "ref"), ("trigger", "ref"), ("starter", "ref"), ("time", "time")], 1, 1),
    "wasEndedBy": ("End", False, [("activity", "ref"), ("trigger", "ref"), ("ender", "ref"), ("time", "time")], 1, 1),
    "wasInvalidatedBy": ("Invalidation", False, [("entity", "ref"), ("activity", "ref"), ("time", "time")], 1, 1),
    "wasDerivedFrom": ("Derivation", False, [("generatedEntity", "ref"), ("usedEntity", "ref"), ("activity", "ref"),
                                            ("generation", "ref"), ("usage", "ref")], 2, 2),
    "wasAttributedTo": ("Attribution", False, [("entity", "ref"), ("agent", "ref")], 2, 2),
    "wasAssociatedWith": ("Association", False, [("activity", "ref"), ("agent", "ref"), ("plan", "ref")], 1, 1),
    "actedOnBehalfOf": ("Delegation", False, [("delegate", "ref"), ("responsible", "ref"), ("activity", "ref")], 2, 2),
    "wasInfluencedBy": ("Influence", False, [("influencee", "ref"), ("influencer", "ref")], 2, 2),
    "specializationOf": ("Specialization", False, [("specificEntity", "ref"), ("generalEntity", "ref")], 2, 2),
    "alternateOf": ("Alternate", False, [("alternate1", "ref"), ("alternate2", "ref")], 2, 2),
    "mentionOf": ("Mention", False, [("specificEntity", "ref"), ("generalEntity", "ref"), ("bundle", "ref")], 3, 3),
    "hadMember": ("Membership", False, [("collection", "ref"), ("entity", "ref")], 2, 2),
}
# expressions whose identifier is not optional / not allowed by the grammar
NO_ID = {"specializationOf", "alternateOf", "mentionOf", "hadMember"}

_BASE = ("A-Za-zÀ-ÖØ-öø-˿Ͱ-ͽͿ-῿‌-‍⁰-↏Ⰰ-⿯"
         "、-퟿豈-﷏ﷰ-�\U00010000-\U000EFFFF")
_PN_CHARS_U = _BASE + "_"
_PN_CHARS = _PN_CHARS_U + r"\-0-9·̀-ͯ‿-⁀"
_OTHERS = r"/@~&+*?#$!"
_ESC = r"\\[=\'(),\-:;\[\]\.]"
_PCT = r"%[0-9A-Fa-f]{2}"
PN_PREFIX_RE = re.compile(r"[%s](?:[%s.]*[%s])?" % (_BASE, _PN_CHARS, _PN_CHARS))
PN_LOCAL_RE = re.compile(r"(?:[%s0-9%s]|%s|%s)(?:(?:[%s.%s]|%s|%s)*(?:[%s%s]|%s|%s))?" % (
    _PN_CHARS_U, _OTHERS, _ESC, _PCT, _PN_CHARS, _OTHERS, _ESC, _PCT, _PN_CHARS, _OTHERS, _ESC, _PCT))
DATETIME_RE = re.compile(r"-?[0-9]{4,}-[0-9]{2}-[0-9]{2}T[0-9]{2}:[0-9]{2}:[0-9]{2}(?:\.[0-9]+)?(?:Z|[+-][0-9]{2}:[0-9]{2})?")
INT_RE = re.compile(r"-?[0-9]+")
LANG_RE = re.compile(r"@[a-zA-Z]+(?:-[a-zA-Z0-9]+)*")
IRI_RE = re.compile(r"<([^<>\"{}|^`\\\x00-\x20]*)>")
ECHARS = {"t": "\t", "b": "\b", "n": "\n", "r": "\r", "f": "\f", "\\": "\\", '"': '"', "'": "'"}


class _P:
    def __init__(self, text):
        self.t = text
        self.i = 0
        self.ambiguous_bundle_ids = 0

    def err(self, msg):
        line = self.t.count("\n", 0, self.i) + 1
        raise ProvNSyntaxError("%s at line %d: %r" % (msg, line, self.t[self.i:self.i + 40]))

    def ws(self):
        t = self.t
        while self.i < len(t):
            c = t[self.i]
            if c in " \t\r\n":
                self.i += 1
            elif t.startswith("//", self.i):
                j = t.find("\n", self.i)
                self.i = len(t) if j < 0 else j
            elif t.startswith("/*", self.i):
                j = t.find("*/", self.i)
                if j < 0:
                    self.err("unterminated comment")
                self.i = j + 2
            else:
                break

    def peek(self, s):
        self.ws()
        return self.t.startswith(s, self.i)

    def word(self):
        self.ws()
        m = re.compile(r"[A-Za-z]+").match(self.t, self.i)
        return m.group(0) if m else None

    def expect(self, s):
        self.ws()
        if not self.t.startswith(s, self.i):
            self.err("expected %r" % s)
        self.i += len(s)

    def keyword(self, kw):
        self.ws()
        m = re.compile(re.escape(kw) + r"(?![A-Za-z0-9_])").match(self.t, self.i)
        if not m:
            return False
        self.i = m.end()
        return True

    # ------------------------------------------------------------------ names
    def qname_raw(self):
        """-> (prefix or None, local) with escapes removed"""
        self.ws()
        t = self.t
        m = PN_PREFIX_RE.match(t, self.i)
        if m and t.startswith(":", m.end()):
            prefix = m.group(0)
            j = m.end() + 1
            ml = PN_LOCAL_RE.match(t, j)
            if ml:
                self.i = ml.end()
                return prefix, _unescape_local(ml.group(0))
            self.i = j
            return prefix, ""
        ml = PN_LOCAL_RE.match(t, self.i)
        if not ml:
            self.err("qualified name expected")
        self.i = ml.end()
        return None, _unescape_local(ml.group(0))

    def resolve(self, scope, prefix, local):
        if prefix is None:
            for s in scope:
                if s["default"] is not None:
                    return s["default"] + local
            self.err("bare name %r without default namespace" % local)
        for s in scope:
            if prefix in s["prefix"]:
                return s["prefix"][prefix] + local
        if prefix == "prov":
            return PROV + local
        if prefix == "xsd":
            return XSD + local
        self.err("undeclared prefix %r" % prefix)

    def qname(self, scope):
        p, l = self.qname_raw()
        return self.resolve(scope, p, l)

    # ------------------------------------------------------------------ literals
    def string(self):
        self.ws()
        t = self.t
        if t.startswith('"""', self.i):
            j = self.i + 3
            out = []
            while True:
                if j >= len(t):
                    self.err("unterminated long string")
                if t.startswith('"""', j):
                    # the closing delimiter is the LAST three quotes of a run
                    k = j
                    while k < len(t) and t[k] == '"':
                        k += 1
                    run = k - j
                    if run > 5:
                        self.err("too many quotes in long string")
                    out.append('"' * (run - 3))
                    self.i = k
                    return "".join(out)
                c = t[j]
                if c == "\\":
                    if j + 1 >= len(t) or t[j + 1] not in ECHARS:
                        self.err("bad escape in string")
                    out.append(ECHARS[t[j + 1]])
                    j += 2
                else:
                    out.append(c)
                    j += 1
        if not t.startswith('"', self.i):
            self.err("string expected")
        j = self.i + 1
        out = []
        while True:
            if j >= len(t):
                self.err("unterminated string")
            c = t[j]
            if c == '"':
                self.i = j + 1
                return "".join(out)
            if c in "\n\r":
                self.err("raw line break in single-line string")
            if c == "\\":
                if j + 1 >= len(t) or t[j + 1] not in ECHARS:
                    self.err("bad escape in string")
                out.append(ECHARS[t[j + 1]])
                j += 2
            else:
                out.append(c)
                j += 1

    def literal(self, scope):
        self.ws()
        t = self.t
        if t.startswith('"', self.i):
            s = self.string()
            self.ws()
            if t.startswith("%%", self.i):
                self.i += 2
                dt = self.qname(scope)
                return typed_value(s, dt, lambda q: self.resolve_text(scope, q))
            m = LANG_RE.match(t, self.i)
            if m:
                self.i = m.end()
                return ("lit", s, PROV + "InternationalizedString", m.group(0)[1:])
            return ("str", s)
        if t.startswith("'", self.i):
            self.i += 1
            u = self.qname(scope)
            self.expect("'")
            return ("qn", u)
        m = INT_RE.match(t, self.i)
        if m:
            self.i = m.end()
            return ("int", int(m.group(0)))
        self.err("literal expected")

    def resolve_text(self, scope, q):
        sub = _P(q)
        p, l = sub.qname_raw()
        if sub.i != len(q):
            self.err("bad qualified name in typed literal %r" % q)
        return self.resolve(scope, p, l)

    # ------------------------------------------------------------------ structure
    def ns_decls(self):
        s = {"default": None, "prefix": {}}
        first = True
        while True:
            if self.keyword("default"):
                if not first:
                    self.err("default namespace declaration must come first")
                self.ws()
                m = IRI_RE.match(self.t, self.i)
                if not m:
                    self.err("IRI expected")
                self.i = m.end()
                s["default"] = m.group(1)
            elif self.keyword("prefix"):
                self.ws()
                m = PN_PREFIX_RE.match(self.t, self.i)
                if not m:
                    self.err("prefix name expected")
                self.i = m.end()
                self.ws()
                mi = IRI_RE.match(self.t, self.i)
                if not mi:
                    self.err("IRI expected")
                self.i = mi.end()
                if m.group(0) in s["prefix"]:
                    self.err("prefix declared twice")
                s["prefix"][m.group(0)] = mi.group(1)
            else:
                return s
            first = False

    def time_or_marker(self):
        self.ws()
        if self.t.startswith("-", self.i) and not DATETIME_RE.match(self.t, self.i):
            self.i += 1
            return None
        m = DATETIME_RE.match(self.t, self.i)
        if not m:
            self.err("time or '-' expected")
        self.i = m.end()
        return dt_value(m.group(0))

    def ref_or_marker(self, scope, allow_marker):
        self.ws()
        if self.t.startswith("-", self.i):
            if not allow_marker:
                self.err("'-' not allowed for this argument")
            self.i += 1
            return None
        return ("qn", self.qname(scope))

    def attrs(self, scope):
        out = []
        self.expect("[")
        self.ws()
        if self.peek("]"):
            self.i += 1
            return out
        while True:
            a = self.qname(scope)
            self.expect("=")
            out.append((a, self.literal(scope)))
            self.ws()
            if self.peek(","):
                self.i += 1
                continue
            self.expect("]")
            return out

    def expression(self, scope):
        name = self.word()
        if name not in EXPR:
            self.err("unknown expression %r" % name)
        self.i += len(name)
        tname, is_el, fargs, nomark, mustwrite = EXPR[name]
        self.expect("(")
        ident = None
        pairs = []
        if is_el:
            ident = self.qname(scope)
        else:
            # optional identifier: look ahead for ';' before the first ',' or ')'
            save = self.i
            self.ws()
            if self.t.startswith("-", self.i):
                j = self.i + 1
                while j < len(self.t) and self.t[j] in " \t\r\n":
                    j += 1
                if self.t.startswith(";", j):
                    self.i = j + 1     # "-;" = explicitly no identifier
                    if name in NO_ID:
                        self.err("identifier marker not allowed for %s" % name)
                else:
                    self.i = save
            else:
                try:
                    cand = self.qname_raw()
                    self.ws()
                    if self.t.startswith(";", self.i):
                        self.i += 1
                        if name in NO_ID and False:
                            self.err("identifier not allowed for %s" % name)
                        ident = self.resolve(scope, *cand)
                    else:
                        self.i = save
                except ProvNSyntaxError:
                    self.i = save
        # positional arguments
        n_written = 0
        for k, (arg, typ) in enumerate(fargs):
            if is_el or k > 0:
                self.ws()
                if not self.peek(","):
                    break
                # a comma may also introduce the attribute list
                j = self.i + 1
                while j < len(self.t) and self.t[j] in " \t\r\n":
                    j += 1
                if self.t.startswith("[", j):
                    break
                self.i += 1
            if typ == "time":
                v = self.time_or_marker()
            else:
                v = self.ref_or_marker(scope, allow_marker=(k >= nomark))
            n_written += 1
            if v is not None:
                pairs.append((PROV + arg, v))
        if n_written not in {len(fargs), 0 if is_el else mustwrite}:
            # the grammar allows dropping the optional tail only as a whole
            self.err("wrong number of arguments for %s" % name)
        self.ws()
        if self.peek(","):
            self.i += 1
            pairs.extend(self.attrs(scope))
        self.expect(")")
        return (PROV + tname, ident, tuple(sorted(set(pairs), key=repr)))


def _unescape_local(s):
    return re.sub(r"\\([=\'(),\-:;\[\]\.])", r"\1", s)


def dt_value(lex):
    import datetime
    s = lex
    if s.endswith("Z"):
        s = s[:-1] + "+00:00"
    # normalise the fraction to microseconds
    m = re.match(r"^(-?[0-9]{4,}-[0-9]{2}-[0-9]{2}T[0-9]{2}:[0-9]{2}:[0-9]{2})(\.[0-9]+)?(Z|[+-][0-9]{2}:[0-9]{2})?$", s)
    if not m:
        raise ValueError("not an xsd:dateTime lexical form: %r" % lex)
    frac = (m.group(2) or "")
    if frac:
        frac = "." + (frac[1:] + "000000")[:6]
    body = m.group(1)
    next_day = False
    if body.endswith("T24:00:00") and not frac.strip(".0"):
        body, next_day = body[:-8] + "00:00:00", True      # XML Schema: hour 24 is midnight of the following day
    d = datetime.datetime.fromisoformat(body + frac + (m.group(3) or ""))
    if next_day:
        d += datetime.timedelta(days=1)
    off = d.utcoffset()
    return ("dt", d.replace(tzinfo=None).isoformat(), None if off is None else int(off.total_seconds()))


def typed_value(lex, dt, resolve_qname):
    """value-space mapping shared by the independent readers (DESIGN appendix D)"""
    if dt == XSD + "string":
        return ("str", lex)
    if dt in (XSD + "int", XSD + "long"):
        try:
            return ("int", int(lex))
        except ValueError:
            return ("lit", lex, dt, None)
    if dt == XSD + "double":
        try:
            return ("float", float(lex).hex())
        except ValueError:
            return ("lit", lex, dt, None)
    if dt == XSD + "boolean":
        if lex in ("true", "1"):       # the lexical space of xsd:boolean is case sensitive
            return ("bool", True)
        if lex in ("false", "0"):
            return ("bool", False)
        return ("lit", lex, dt, None)
    if dt == XSD + "dateTime":
        try:
            return dt_value(lex)
        except Exception:
            return ("lit", lex, dt, None)
    if dt == XSD + "anyURI":
        return ("uri", lex)
    if dt == PROV + "QUALIFIED_NAME":
        return ("qn", resolve_qname(lex))
    return ("lit", lex, dt, None)


def parse(text):
    p = _P(text)
    if not p.keyword("document"):
        p.err("'document' expected")
    top = p.ns_decls()
    scope = [top]
    recs = Counter()
    bundles = {}
    while True:
        w = p.word()
        if w in EXPR:
            recs[p.expression(scope)] += 1
        else:
            break
    while p.keyword("bundle"):
        raw = p.qname_raw()
        decl = p.ns_decls()
        bscope = [decl, top]
        uri_in_bundle = None
        uri_in_doc = None
        try:
            uri_in_bundle = p.resolve(bscope, *raw)
        except ProvNSyntaxError:
            pass
        try:
            uri_in_doc = p.resolve(scope, *raw)
        except ProvNSyntaxError:
            pass
        if uri_in_bundle is None and uri_in_doc is None:
            p.err("bundle identifier cannot be resolved")
        if uri_in_bundle is not None and uri_in_doc is not None and uri_in_bundle != uri_in_doc:
            p.ambiguous_bundle_ids += 1
        uri = uri_in_bundle if uri_in_bundle is not None else uri_in_doc
        brecs = Counter()
        while True:
            w = p.word()
            if w in EXPR:
                brecs[p.expression(bscope)] += 1
            else:
                break
        if not p.keyword("endBundle"):
            p.err("'endBundle' expected")
        if uri in bundles:
            p.err("bundle identifier used twice")
        bundles[uri] = brecs
    if not p.keyword("endDocument"):
        p.err("'endDocument' expected")
    p.ws()
    if p.i != len(p.t):
        p.err("trailing text")
    return (recs, bundles), {"ambiguous_bundle_ids": p.ambiguous_bundle_ids}
