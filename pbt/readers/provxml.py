"""Independent PROV-XML reader + structural validity predicate, written from the PROV-XML note / schema.
Uses only the standard library (xml.etree iterparse with start-ns events; the in-scope prefix table is kept here
because QName-valued content must be resolved against it).  read(data) -> ((Counter, {bundle uri: Counter}), info)"""
import io
import xml.etree.ElementTree as ET
from collections import Counter

from .provn import typed_value, dt_value, PROV, XSD

XSI = "http://www.w3.org/2001/XMLSchema-instance"
XML = "http://www.w3.org/XML/1998/namespace"
XSD_NOHASH = "http://www.w3.org/2001/XMLSchema"


class ProvXMLStructureError(Exception):
    pass


ELEMENTS = {
    "entity": ("Entity", []),
    "activity": ("Activity", [("startTime", "time"), ("endTime", "time")]),
    "agent": ("Agent", []),
    "wasGeneratedBy": ("Generation", [("entity", "ref"), ("activity", "ref"), ("time", "time")]),
    "used": ("Usage", [("activity", "ref"), ("entity", "ref"), ("time", "time")]),
    "wasInformedBy": ("Communication", [("informed", "ref"), ("informant", "ref")]),
    "wasStartedBy": ("Start", [("activity", "ref"), ("trigger", "ref"), ("starter", "ref"), ("time", "time")]),
    "wasEndedBy": ("End", [("activity", "ref"), ("trigger", "ref"), ("ender", "ref"), ("time", "time")]),
    "wasInvalidatedBy": ("Invalidation", [("entity", "ref"), ("activity", "ref"), ("time", "time")]),
    "wasDerivedFrom": ("Derivation", [("generatedEntity", "ref"), ("usedEntity", "ref"), ("activity", "ref"),
                                      ("generation", "ref"), ("usage", "ref")]),
    "wasAttributedTo": ("Attribution", [("entity", "ref"), ("agent", "ref")]),
    "wasAssociatedWith": ("Association", [("activity", "ref"), ("agent", "ref"), ("plan", "ref")]),
    "actedOnBehalfOf": ("Delegation", [("delegate", "ref"), ("responsible", "ref"), ("activity", "ref")]),
    "wasInfluencedBy": ("Influence", [("influencee", "ref"), ("influencer", "ref")]),
    "specializationOf": ("Specialization", [("specificEntity", "ref"), ("generalEntity", "ref")]),
    "alternateOf": ("Alternate", [("alternate1", "ref"), ("alternate2", "ref")]),
    "mentionOf": ("Mention", [("specificEntity", "ref"), ("generalEntity", "ref"), ("bundle", "ref")]),
    "hadMember": ("Membership", [("collection", "ref"), ("entity", "ref")]),
}
SUBTYPES = {
    "person": ("agent", "Person"), "organization": ("agent", "Organization"), "softwareAgent": ("agent", "SoftwareAgent"),
    "plan": ("entity", "Plan"), "collection": ("entity", "Collection"), "emptyCollection": ("entity", "EmptyCollection"),
    "bundle": ("entity", "Bundle"),
    "wasRevisionOf": ("wasDerivedFrom", "Revision"), "wasQuotedFrom": ("wasDerivedFrom", "Quotation"),
    "hadPrimarySource": ("wasDerivedFrom", "PrimarySource"),
}
COMMON_ORDER = ["label", "location", "role", "type", "value"]


def _err(msg):
    raise ProvXMLStructureError(msg)


def _split(tag):
    if tag.startswith("{"):
        ns, local = tag[1:].split("}", 1)
        return ns, local
    return "", tag


def _qname(text, scope):
    text = text.strip() if text is not None else ""
    if ":" in text:
        prefix, local = text.split(":", 1)
        if prefix not in scope:
            _err("undeclared prefix in QName %r" % text)
        return scope[prefix] + local
    if "" not in scope or not scope[""]:
        _err("unprefixed QName %r without default namespace" % text)
    return scope[""] + text


def _datatype(text, scope):
    if ":" not in text:
        if not scope.get(""):
            _err("unprefixed xsi:type %r without default namespace" % text)
        return scope[""] + text      # an unprefixed QName value resolves against the default namespace
    prefix, local = text.split(":", 1)
    if prefix not in scope:
        _err("undeclared prefix in xsi:type %r" % text)
    ns = scope[prefix]
    if ns == XSD_NOHASH:
        ns = XSD
    return ns + local


def _parse(data):
    if isinstance(data, str):
        data = data.encode("utf-8")
    scopes = {}
    stack = [{"xml": XML}]
    pending = []
    root = None
    for ev, x in ET.iterparse(io.BytesIO(data), events=("start", "end", "start-ns", "end-ns")):
        if ev == "start-ns":
            pending.append(x)
        elif ev == "start":
            m = dict(stack[-1])
            for p, u in pending:
                m[p] = u
            pending = []
            stack.append(m)
            scopes[x] = m
            if root is None:
                root = x
        elif ev == "end":
            stack.pop()
    return root, scopes


def _record(el, scopes, info):
    ns, local = _split(el.tag)
    sub_type = None
    base = local
    if local in SUBTYPES:
        base, sub_type = SUBTYPES[local]
        info["subtype_elements"] = info.get("subtype_elements", 0) + 1
    if base not in ELEMENTS:
        _err("unknown PROV element %r" % local)
    tname, formal = ELEMENTS[base]
    scope = scopes[el]
    rid = None
    for k, v in el.attrib.items():
        kns, kl = _split(k)
        if (kns, kl) == (PROV, "id"):
            rid = _qname(v, scope)
        elif (kns, kl) == (XSI, "type"):
            pass
        else:
            _err("unexpected attribute %s on record element" % k)
    pairs = []
    fmap = {a: t for a, t in formal}
    order = []
    for ch in el:
        cns, cl = _split(ch.tag)
        cscope = scopes[ch]
        auri = cns + cl
        text = ch.text if ch.text is not None else ""
        if len(ch):
            _err("attribute element with child elements")
        attrs = {_split(k): v for k, v in ch.attrib.items()}
        if cns == PROV and cl in fmap:
            order.append(("formal", [a for a, _ in formal].index(cl)))
            if fmap[cl] == "ref":
                if set(attrs) != {(PROV, "ref")}:
                    _err("reference element prov:%s must carry exactly prov:ref" % cl)
                if text.strip():
                    _err("reference element prov:%s has text content" % cl)
                pairs.append((auri, ("qn", _qname(attrs[(PROV, "ref")], cscope))))
            else:
                if attrs:
                    _err("time element prov:%s carries attributes" % cl)
                try:
                    pairs.append((auri, dt_value(text.strip())))
                except ValueError:
                    _err("time element prov:%s is not an xsd:dateTime lexical form" % cl)
            info.setdefault("formal_keys", set()).add(base + "/" + cl)
            continue
        if cns == PROV and cl in COMMON_ORDER:
            order.append(("common", COMMON_ORDER.index(cl)))
        else:
            order.append(("other", 0))
        if (PROV, "ref") in attrs:
            _err("prov:ref on a non-reference element %s" % cl)
        extra = set(attrs) - {(XSI, "type"), (XML, "lang")}
        if extra:
            _err("unexpected attribute %s on value element" % sorted(extra))
        if (XML, "lang") in attrs:
            if (XSI, "type") in attrs and _datatype(attrs[(XSI, "type")], cscope) != PROV + "InternationalizedString":
                _err("xml:lang together with a foreign xsi:type")
            pairs.append((auri, ("lit", text, PROV + "InternationalizedString", attrs[(XML, "lang")])))
        elif (XSI, "type") in attrs:
            dt = _datatype(attrs[(XSI, "type")], cscope)
            if dt == XSD + "QName":
                pairs.append((auri, ("qn", _qname(text, cscope))))
            else:
                pairs.append((auri, typed_value(text, dt, lambda q: _qname(q, cscope))))
        else:
            pairs.append((auri, ("str", text)))
    # schema child order: formal arguments in their order, then label, location, role, type, value, then others
    rank = {"formal": 0, "common": 1, "other": 2}
    keys = [(rank[k], i) for k, i in order]
    if keys != sorted(keys):
        _err("children of prov:%s are not in schema order" % local)
    if sub_type is not None:
        pairs.append((PROV + "type", ("qn", PROV + sub_type)))
    for k, v in el.attrib.items():
        if _split(k) == (XSI, "type"):
            pairs.append((PROV + "type", ("qn", _datatype(v, scope) if ":" in v else _qname(v, scope))))
    if base == "hadMember":
        # normalisation shared with PROV-JSON: one membership per listed entity (the first keeps the identifier)
        ents = [p_ for p_ in pairs if p_[0] == PROV + "entity"]
        if len(ents) > 1:
            info["multi_entity_membership"] = info.get("multi_entity_membership", 0) + 1
            rest = [p_ for p_ in pairs if p_[0] != PROV + "entity"]
            col = [p_ for p_ in pairs if p_[0] == PROV + "collection"]
            out = [(PROV + tname, rid, tuple(sorted(set(rest + [ents[0]]), key=repr)))]
            for e_ in ents[1:]:
                out.append((PROV + tname, None, tuple(sorted(set(col + [e_]), key=repr))))
            return out
    return [(PROV + tname, rid, tuple(sorted(set(pairs), key=repr)))]


def read(data):
    info = {"ambiguous_bundle_ids": 0}
    root, scopes = _parse(data)
    if _split(root.tag) != (PROV, "document"):
        _err("root element is not prov:document")
    recs = Counter()
    bundles = {}
    for el in root:
        ns, local = _split(el.tag)
        if ns != PROV:
            _err("non-PROV element %r under prov:document" % el.tag)
        if local == "bundleContent":
            bid = None
            for k, v in el.attrib.items():
                if _split(k) == (PROV, "id"):
                    bid = v
                else:
                    _err("unexpected attribute on bundleContent")
            if bid is None:
                _err("bundleContent without prov:id")
            in_b = in_d = None
            try:
                in_b = _qname(bid, scopes[el])
            except ProvXMLStructureError:
                pass
            try:
                in_d = _qname(bid, scopes[root])
            except ProvXMLStructureError:
                pass
            if in_b is None:
                _err("bundle identifier cannot be resolved")
            if in_d is not None and in_d != in_b:
                info["ambiguous_bundle_ids"] += 1
            brecs = Counter()
            for sub in el:
                sns, sl = _split(sub.tag)
                if sns != PROV:
                    _err("non-PROV element in bundleContent")
                if sl == "bundleContent":
                    _err("nested bundleContent")
                for r_ in _record(sub, scopes, info):
                    brecs[r_] += 1
            if in_b in bundles:
                _err("two bundles with one identifier")
            bundles[in_b] = brecs
        elif local == "other":
            continue
        else:
            for r_ in _record(el, scopes, info):
                recs[r_] += 1
    return (recs, bundles), info
