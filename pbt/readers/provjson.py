"""Independent PROV-JSON reader + structural validity predicate, written from the PROV-JSON member submission.
Imports nothing from `prov`.  read(text) -> ((Counter, {bundle uri: Counter}), info)"""
import json
from collections import Counter

from .provn import typed_value, dt_value, PROV, XSD


class ProvJSONStructureError(Exception):
    pass


# PROV-JSON statement name -> (type local name, [(formal key local name, 'ref'|'time')])
STATEMENTS = {
    "entity": ("Entity", []),
    "activity": ("Activity", [("startTime", "time"), ("endTime", "time")]),
    "agent": ("Agent", []),
    "wasGeneratedBy": ("Generation", [("entity", "ref"), ("activity", "ref"), ("time", "time")]),
    "used": ("Usage", [("activity", "ref"), ("entity", "ref"), ("time", "time")]),
    "wasInformedBy": ("Communication", [("informed", "ref"), ("informant", "ref")]),
    "wasStartedBy": ("Start", [("activity", "ref"), ("trigger", "ref"), ("starter", "ref"), ("time", "time")]),
    "wasEndedBy": ("End", [("activity", "ref"), ("trigger", "ref"), ("ender", "ref"), ("time", "time")]),
    "wasInvalidatedBy": ("Invalidation", [("entity", "ref"), ("activity", "ref"), ("time", "time")]),
    "wasDerivedFrom": ("Derivation", [("generatedEntity", "ref"), ("usedEntity", "ref"), ("activity", "ref"),
                                      ("generation", "ref"), ("usage", "ref")]),
    "wasAttributedTo": ("Attribution", [("entity", "ref"), ("agent", "ref")]),
    "wasAssociatedWith": ("Association", [("activity", "ref"), ("agent", "ref"), ("plan", "ref")]),
    "actedOnBehalfOf": ("Delegation", [("delegate", "ref"), ("responsible", "ref"), ("activity", "ref")]),
    "wasInfluencedBy": ("Influence", [("influencee", "ref"), ("influencer", "ref")]),
    "specializationOf": ("Specialization", [("specificEntity", "ref"), ("generalEntity", "ref")]),
    "alternateOf": ("Alternate", [("alternate1", "ref"), ("alternate2", "ref")]),
    "mentionOf": ("Mention", [("specificEntity", "ref"), ("generalEntity", "ref"), ("bundle", "ref")]),
    "hadMember": ("Membership", [("collection", "ref"), ("entity", "ref")]),
}


def _err(msg):
    raise ProvJSONStructureError(msg)


def _resolve(scopes, name):
    if not isinstance(name, str):
        _err("name is not a string: %r" % (name,))
    if ":" in name:
        prefix, local = name.split(":", 1)
        for s in scopes:
            if prefix in s["prefix"]:
                return s["prefix"][prefix] + local
        if prefix == "prov":
            return PROV + local
        if prefix == "xsd":
            return XSD + local
        _err("undeclared prefix in %r" % name)
    for s in scopes:
        if s["default"] is not None:
            return s["default"] + name
    _err("bare name %r without default namespace" % name)


def _scope(container):
    s = {"default": None, "prefix": {}}
    block = container.get("prefix", {})
    if not isinstance(block, dict):
        _err("'prefix' is not an object")
    for p, u in block.items():
        if not isinstance(u, str):
            _err("namespace URI is not a string")
        if p == "default":
            s["default"] = u
        else:
            s["prefix"][p] = u
    return s


def _value(v, scopes):
    if isinstance(v, bool):
        return ("bool", v)
    if isinstance(v, int):
        return ("int", v)
    if isinstance(v, float):
        return ("float", v.hex())
    if isinstance(v, str):
        return ("str", v)
    if isinstance(v, dict):
        keys = set(v)
        if "$" not in keys or not keys <= {"$", "type", "lang"}:
            _err("typed value object with keys %s" % sorted(keys))
        raw = v["$"]
        if "lang" in v:
            if "type" in v and _resolve(scopes, v["type"]) != PROV + "InternationalizedString":
                _err("'lang' together with a foreign 'type'")
            if not isinstance(raw, str) or not isinstance(v["lang"], str):
                _err("language-tagged value must be a string")
            return ("lit", raw, PROV + "InternationalizedString", v["lang"])
        if "type" not in v:
            _err("typed value object without type or lang")
        dt = _resolve(scopes, v["type"])
        if isinstance(raw, bool):
            lex = "true" if raw else "false"
        elif isinstance(raw, (int, float)):
            lex = repr(raw)
        elif isinstance(raw, str):
            lex = raw
        else:
            _err("'$' is not a scalar")
        return typed_value(lex, dt, lambda q: _resolve(scopes, q))
    _err("value of unsupported JSON type %s" % type(v).__name__)


def _container(c, scopes, info, foreign=False):
    recs = Counter()
    for key, body in c.items():
        if key in ("prefix", "bundle"):
            continue
        if key not in STATEMENTS:
            _err("unknown top-level key %r" % key)
        tname, formal = STATEMENTS[key]
        fmap = {"prov:" + a: t for a, t in formal}
        if not isinstance(body, dict):
            _err("statement map %r is not an object" % key)
        for ident, objs in body.items():
            rid = None if ident.startswith("_:") else _resolve(scopes, ident)
            if isinstance(objs, dict):
                objs = [objs]
            elif not isinstance(objs, list) or not all(isinstance(o, dict) for o in objs):
                _err("record %r is neither an object nor an array of objects" % ident)
            else:
                info["record_arrays"] = info.get("record_arrays", 0) + 1
            for o in objs:
                pairs = []
                extra_members = []
                for k, v in o.items():
                    auri = _resolve(scopes, k)
                    if k in fmap or auri in {PROV + a for a, _ in formal}:
                        typ = dict((PROV + a, t) for a, t in formal)[auri]
                        if foreign and isinstance(v, list):
                            # PROV-JSON allows any value in an array; a formal attribute may still hold only one,
                            # except prov:entity of hadMember (one membership per listed entity)
                            if len(v) == 1:
                                v = v[0]
                                info["formal_in_array"] = info.get("formal_in_array", 0) + 1
                            elif key == "hadMember" and auri == PROV + "entity" and len(v) > 1:
                                extra_members = v[1:]
                                v = v[0]
                                info["multi_entity_membership"] = info.get("multi_entity_membership", 0) + 1
                            else:
                                _err("formal attribute %s has %d values" % (k, len(v)))
                        if not isinstance(v, str):
                            _err("formal attribute %s is not a string" % k)
                        if typ == "ref":
                            pairs.append((auri, ("qn", _resolve(scopes, v))))
                        else:
                            try:
                                pairs.append((auri, dt_value(v)))
                            except ValueError:
                                _err("formal time %s is not an xsd:dateTime lexical form" % k)
                        info.setdefault("formal_keys", set()).add(key + "/" + k)
                    elif isinstance(v, list):
                        if not v:
                            _err("empty value array")
                        for x in v:
                            pairs.append((auri, _value(x, scopes)))
                    else:
                        pairs.append((auri, _value(v, scopes)))
                recs[(PROV + tname, rid, tuple(sorted(set(pairs), key=repr)))] += 1
                for m in extra_members:
                    col = [p_ for p_ in pairs if p_[0] == PROV + "collection"]
                    recs[(PROV + tname, None, tuple(sorted(set(col + [(PROV + "entity", ("qn", _resolve(scopes, m)))]), key=repr)))] += 1
    return recs


def read(text, foreign=False):
    """foreign=True accepts the dialect forms a third-party writer may use (C11); the default is the strict form
    expected from this library's writer (C10)."""
    info = {"ambiguous_bundle_ids": 0}
    doc = json.loads(text)
    if not isinstance(doc, dict):
        _err("top level is not an object")
    top = _scope(doc)
    recs = _container(doc, [top], info, foreign)
    bundles = {}
    bl = doc.get("bundle", {})
    if not isinstance(bl, dict):
        _err("'bundle' is not an object")
    for bid, body in bl.items():
        if not isinstance(body, dict):
            _err("bundle body is not an object")
        if "bundle" in body:
            _err("nested bundle")
        bs = _scope(body)
        in_b = in_d = None
        try:
            in_b = _resolve([bs, top], bid)
        except ProvJSONStructureError:
            pass
        try:
            in_d = _resolve([top], bid)
        except ProvJSONStructureError:
            pass
        if in_b is None and in_d is None:
            _err("bundle identifier %r cannot be resolved" % bid)
        if in_b is not None and in_d is not None and in_b != in_d:
            info["ambiguous_bundle_ids"] += 1
        uri = in_b if in_b is not None else in_d
        if uri in bundles:
            _err("two bundles with one identifier")
        bundles[uri] = _container(body, [bs, top], info, foreign)
    return (recs, bundles), info
