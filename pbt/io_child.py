"""Child process for C16: what a FRESH interpreter sees.  Usage:
    python -m pbt.io_child <out.pickle> <first_fmt|-> <first_file|-> <fmt> <file>
Optionally uses one format explicitly first (as a program that has already loaded another document would have), then
reads <file> with prov.read() WITHOUT a format from a path, a text stream and a binary stream, and pickles the strict
canonical content of each result (or the exception's type name)."""
import io
import pickle
import sys


def main(argv):
    out, first_fmt, first_file, fmt, path = argv
    import logging
    logging.disable(logging.CRITICAL)
    import prov
    from prov.model import ProvDocument
    from pbt.canon import canon
    res = {}
    if first_fmt != "-":
        if first_file != "-":
            ProvDocument.deserialize(first_file, format=first_fmt)
        else:
            ProvDocument().serialize(format=first_fmt)
    with open(path, "rb") as f:
        raw = f.read()
    for kind in ("path", "text", "binary"):
        try:
            src = path if kind == "path" else io.StringIO(raw.decode("utf-8")) if kind == "text" else io.BytesIO(raw)
            d = prov.read(src)
            res[kind] = ("ok", None if d is None else canon(d))
        except Exception as e:  # reported to the parent, which decides
            res[kind] = ("exc", type(e).__name__ + ": " + str(e)[:200])
    with open(out, "wb") as f:
        pickle.dump(res, f)


if __name__ == "__main__":
    main(sys.argv[1:])
