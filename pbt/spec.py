"""Specification tables, transcribed from PROV-DM / PROV-N / PROV-JSON / PROV-XML.

Nothing here is read from the library (prov.constants / FORMAL_ATTRIBUTES): a divergence
between these tables and the library is something the checks must see.
"""
PROV_NS = "http://www.w3.org/ns/prov#"
XSD_NS = "http://www.w3.org/2001/XMLSchema#"
XSI_NS = "http://www.w3.org/2001/XMLSchema-instance"

# kind -> (PROV-N / PROV-JSON name, PROV-DM type local name, is_element,
#          [(argument local name, 'ref'|'time')...], number of mandatory leading args,
#          factory method name, accepts identifier through the factory)
KINDS = {
    "entity":         ("entity", "Entity", True, [], 0, "entity", True),
    "activity":       ("activity", "Activity", True, [("startTime", "time"), ("endTime", "time")], 0, "activity", True),
    "agent":          ("agent", "Agent", True, [], 0, "agent", True),
    "generation":     ("wasGeneratedBy", "Generation", False, [("entity", "ref"), ("activity", "ref"), ("time", "time")], 1, "generation", True),
    "usage":          ("used", "Usage", False, [("activity", "ref"), ("entity", "ref"), ("time", "time")], 1, "usage", True),
    "communication":  ("wasInformedBy", "Communication", False, [("informed", "ref"), ("informant", "ref")], 2, "communication", True),
    "start":          ("wasStartedBy", "Start", False, [("activity", "ref"), ("trigger", "ref"), ("starter", "ref"), ("time", "time")], 1, "start", True),
    "end":            ("wasEndedBy", "End", False, [("activity", "ref"), ("trigger", "ref"), ("ender", "ref"), ("time", "time")], 1, "end", True),
    "invalidation":   ("wasInvalidatedBy", "Invalidation", False, [("entity", "ref"), ("activity", "ref"), ("time", "time")], 1, "invalidation", True),
    "derivation":     ("wasDerivedFrom", "Derivation", False, [("generatedEntity", "ref"), ("usedEntity", "ref"), ("activity", "ref"), ("generation", "ref"), ("usage", "ref")], 2, "derivation", True),
    "attribution":    ("wasAttributedTo", "Attribution", False, [("entity", "ref"), ("agent", "ref")], 2, "attribution", True),
    "association":    ("wasAssociatedWith", "Association", False, [("activity", "ref"), ("agent", "ref"), ("plan", "ref")], 1, "association", True),
    "delegation":     ("actedOnBehalfOf", "Delegation", False, [("delegate", "ref"), ("responsible", "ref"), ("activity", "ref")], 2, "delegation", True),
    "influence":      ("wasInfluencedBy", "Influence", False, [("influencee", "ref"), ("influencer", "ref")], 2, "influence", True),
    "specialization": ("specializationOf", "Specialization", False, [("specificEntity", "ref"), ("generalEntity", "ref")], 2, "specialization", False),
    "alternate":      ("alternateOf", "Alternate", False, [("alternate1", "ref"), ("alternate2", "ref")], 2, "alternate", False),
    "mention":        ("mentionOf", "Mention", False, [("specificEntity", "ref"), ("generalEntity", "ref"), ("bundle", "ref")], 3, "mention", False),
    "membership":     ("hadMember", "Membership", False, [("collection", "ref"), ("entity", "ref")], 2, "membership", False),
}
KIND_LIST = list(KINDS)
ELEMENT_KINDS = [k for k in KINDS if KINDS[k][2]]
RELATION_KINDS = [k for k in KINDS if not KINDS[k][2]]

# factory keyword names where they differ from the PROV-DM argument name
FACTORY_KW = {}

# PROV-N alias method names on ProvBundle
ALIASES = {
    "generation": "wasGeneratedBy", "usage": "used", "start": "wasStartedBy", "end": "wasEndedBy",
    "invalidation": "wasInvalidatedBy", "communication": "wasInformedBy", "attribution": "wasAttributedTo",
    "association": "wasAssociatedWith", "delegation": "actedOnBehalfOf", "influence": "wasInfluencedBy",
    "derivation": "wasDerivedFrom", "alternate": "alternateOf", "specialization": "specializationOf",
    "mention": "mentionOf", "membership": "hadMember",
}

def type_uri(kind):
    return PROV_NS + KINDS[kind][1]

def provn_name(kind):
    return KINDS[kind][0]

def formal_args(kind):
    return KINDS[kind][3]

def mandatory(kind):
    return KINDS[kind][4]

TYPE_URI_TO_KIND = {type_uri(k): k for k in KINDS}
PROVN_TO_KIND = {provn_name(k): k for k in KINDS}

PROV_ATTR_SLOTS = ["type", "label", "value", "location", "role"]

# PROV-XML subtype elements: element local name -> (base kind, prov:type local name)
XML_SUBTYPES = {
    "person": ("agent", "Person"), "organization": ("agent", "Organization"),
    "softwareAgent": ("agent", "SoftwareAgent"),
    "plan": ("entity", "Plan"), "collection": ("entity", "Collection"),
    "emptyCollection": ("entity", "EmptyCollection"),
    "wasRevisionOf": ("derivation", "Revision"), "wasQuotedFrom": ("derivation", "Quotation"),
    "hadPrimarySource": ("derivation", "PrimarySource"),
}
SUBTYPE_TYPE_TO_BASE = {v[1]: v[0] for v in XML_SUBTYPES.values()}
# PROV-XML also treats prov:Bundle as an entity subtype in the library's table; the schema has
# no prov:bundle element for records (prov:bundleContent is the container), so not listed here.
