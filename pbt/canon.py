"""Strict, URI-level, kind-aware canonical content of documents (public accessors only)."""
import datetime
from collections import Counter


def cval(v):
    from prov.model import Literal
    from prov.identifier import Identifier, QualifiedName

    if isinstance(v, bool):
        return ("bool", v)
    if isinstance(v, int):
        return ("int", v)
    if isinstance(v, float):
        return ("float", v.hex())
    if isinstance(v, str):
        return ("str", v)
    if isinstance(v, datetime.datetime):
        off = v.utcoffset()
        return ("dt", v.replace(tzinfo=None).isoformat(),
                None if off is None else int(off.total_seconds()))
    if isinstance(v, Literal):
        dt = v.datatype
        return ("lit", v.value, getattr(dt, "uri", None) if dt is not None else None, v.langtag)
    if isinstance(v, QualifiedName):
        return ("qn", v.uri)
    if isinstance(v, Identifier):
        return ("uri", v.uri)
    return ("other", type(v).__name__, repr(v))


def crecord(r):
    ident = r.identifier
    return (
        r.get_type().uri,
        None if ident is None else ident.uri,
        tuple(sorted(((a.uri, cval(v)) for a, v in r.attributes), key=repr)),
    )


def crecords(container):
    """ordered list of canonical records of one container"""
    return [crecord(r) for r in container.get_records()]


def canon(doc):
    """(bag of document records, {bundle id uri: bag of records})"""
    top = Counter(crecords(doc))
    bundles = {}
    dup = []
    for b in getattr(doc, "bundles", ()):
        u = b.identifier.uri if b.identifier is not None else None
        if u in bundles:
            dup.append(u)
            bundles[u] = bundles[u] + Counter(crecords(b))
        else:
            bundles[u] = Counter(crecords(b))
    return (top, bundles)


def ordered(doc):
    """ordered strict content: record order and bundle order included"""
    return (crecords(doc), [(b.identifier.uri if b.identifier is not None else None, crecords(b))
                            for b in getattr(doc, "bundles", ())])


def ns_snapshot(c):
    d = c.get_default_namespace()
    return (tuple(sorted((n.prefix, n.uri) for n in c.namespaces)), None if d is None else d.uri)


def snapshot(doc):
    """everything observable that an export / a derived object must not change"""
    conts = [doc] + list(getattr(doc, "bundles", ()))
    links = tuple(all(r.bundle is c for r in c.get_records()) for c in conts)   # records still belong to their container
    return (ordered(doc), ns_snapshot(doc), [ns_snapshot(b) for b in getattr(doc, "bundles", ())], links)


def as_sets(c):
    top, bundles = c
    return (frozenset(top), {u: frozenset(b) for u, b in bundles.items()})


# ------------------------------------------------------------------ diff
def _kind(cv):
    return cv[0] if cv[0] != "lit" else ("lang" if cv[3] else "lit")


def _short(t):
    return t.rsplit("#", 1)[-1]


def diff_bags(a, b, where):
    """a = expected, b = actual (Counters of canonical records) -> list of diff items"""
    items = []
    missing = list((a - b).elements())
    extra = list((b - a).elements())
    # pair records of the same (type, id)
    used = set()
    for m in list(missing):
        for j, e in enumerate(extra):
            if j in used:
                continue
            if e[0] == m[0] and e[1] == m[1]:
                used.add(j)
                missing.remove(m)
                am, ae = Counter(m[2]), Counter(e[2])
                for (attr, cv) in (am - ae).elements():
                    items.append({"b": "attr_missing:" + _kind(cv), "where": where, "rec": [m[0], m[1]],
                                  "attr": attr, "val": list(cv)})
                for (attr, cv) in (ae - am).elements():
                    items.append({"b": "attr_extra:" + _kind(cv), "where": where, "rec": [e[0], e[1]],
                                  "attr": attr, "val": list(cv)})
                break
    extra = [e for j, e in enumerate(extra) if j not in used]
    # pair records of the same type and attributes but different id
    used = set()
    for m in list(missing):
        for j, e in enumerate(extra):
            if j in used:
                continue
            if e[0] == m[0] and e[2] == m[2]:
                used.add(j)
                missing.remove(m)
                items.append({"b": "id_changed", "where": where, "rec": [m[0], m[1]], "got": e[1]})
                break
    extra = [e for j, e in enumerate(extra) if j not in used]
    for m in missing:
        items.append({"b": "rec_missing:" + _short(m[0]), "where": where, "rec": _jrec(m)})
    for e in extra:
        items.append({"b": "rec_extra:" + _short(e[0]), "where": where, "rec": _jrec(e)})
    return items


def _jrec(r):
    return [r[0], r[1], [[a, list(cv)] for a, cv in r[2]]]


def diff_canon(exp, act):
    items = diff_bags(exp[0], act[0], "doc")
    eb, ab = exp[1], act[1]
    for u in eb:
        if u not in ab:
            items.append({"b": "bundle_missing", "where": u, "n": sum(eb[u].values())})
        else:
            items.extend(diff_bags(eb[u], ab[u], u))
    for u in ab:
        if u not in eb:
            items.append({"b": "bundle_extra", "where": u, "n": sum(ab[u].values())})
    return items


def diff_sets(exp, act):
    """set-based comparison (multiplicities ignored)"""
    e = (Counter(dict.fromkeys(exp[0], 1)), {u: Counter(dict.fromkeys(b, 1)) for u, b in exp[1].items()})
    a = (Counter(dict.fromkeys(act[0], 1)), {u: Counter(dict.fromkeys(b, 1)) for u, b in act[1].items()})
    return diff_canon(e, a)


def diff_ordered(exp, act, where):
    """exp/act: lists of canonical records; order matters"""
    if exp == act:
        return []
    items = diff_bags(Counter(exp), Counter(act), where)
    if not items:
        items.append({"b": "order", "where": where})
    return items
