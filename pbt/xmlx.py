"""XML expressibility of a *built* document (decided through public accessors), as C02's quantifier states."""
import re

_NCNAME = re.compile(r"^[A-Za-z_À-ÖØ-öø-˿Ͱ-ͽͿ-῿‌-‍⁰-↏"
                     r"Ⰰ-⿯、-퟿豈-﷏ﷰ-�]"
                     r"[A-Za-z_0-9.\-·À-ÖØ-öø-ͽͿ-῿‌-‍‿-⁀"
                     r"⁰-↏Ⰰ-⿯、-퟿豈-﷏ﷰ-�]*$")
_BAD_CHARS = re.compile("[^\u0009\u000A -퟿-�\U00010000-\U0010FFFF]")
PROV_NS = "http://www.w3.org/ns/prov#"
XSD_QNAME = "http://www.w3.org/2001/XMLSchema#QName"


def is_ncname(s):
    return bool(_NCNAME.match(s))


def clean(s):
    return _BAD_CHARS.search(s) is None


def why_not_expressible(doc):
    """None when the document is inside C02's quantifier, else a short reason"""
    from prov.model import Literal
    from prov.identifier import QualifiedName
    def bad_ns(q):
        u = q.namespace.uri
        return (not u.isascii()) or any(ch in u for ch in ' <>"{}|\\^`')
    for c in [doc] + list(doc.bundles):
        if c.identifier is not None and bad_ns(c.identifier):
            return "namespace_uri_not_a_uri"
        for n in c.namespaces:
            if (not n.uri.isascii()) or " " in n.uri:
                return "namespace_uri_not_a_uri"
        for r in c.get_records():
            if r.identifier is not None and bad_ns(r.identifier):
                return "namespace_uri_not_a_uri"
            for a, v in r.attributes:
                if bad_ns(a) or (isinstance(v, QualifiedName) and bad_ns(v)) or (
                        isinstance(v, Literal) and isinstance(v.datatype, QualifiedName) and bad_ns(v.datatype)):
                    return "namespace_uri_not_a_uri"
                if a.namespace.uri != PROV_NS and not is_ncname(a.localpart):
                    return "attr_local_not_ncname"
                if isinstance(v, str):
                    if not clean(v):
                        return "string_not_xml_clean"
                elif isinstance(v, Literal):
                    if not clean(v.value):
                        return "string_not_xml_clean"
                    if v.datatype is not None and v.datatype.uri == XSD_QNAME:
                        return "xsd_qname_literal"
                    if v.langtag is not None and not re.match(r"^[A-Za-z]{1,8}(-[A-Za-z0-9]{1,8})*$", v.langtag):
                        return "langtag_not_xml_lang"
                if a.uri == PROV_NS + "label":
                    if not (isinstance(v, str) or (isinstance(v, Literal) and v.langtag is not None)):
                        return "label_not_string"
    return None
