"""The enumerated finite core: record kind x optional-argument mask x identified?, and
value kind x attribute slot x record class.  One small document per cell."""
import itertools
from . import spec

EX = "http://a/"


def _n(local, as_="qn", prefix="ex", ns=EX):
    return {"ns": ns, "local": local, "prefix": prefix, "as": as_}


REPRESENTATIVE_VALUES = {
    "str": [{"k": "str", "v": "plain"}, {"k": "str", "v": ""}, {"k": "str", "v": "q\"uo'te\\back\nnl <&> é漢"}],
    "int": [{"k": "int", "v": 7}, {"k": "int", "v": 2**40}, {"k": "int", "v": -10**30}],
    "float": [{"k": "float", "v": (0.1).hex()}, {"k": "float", "v": (3.0).hex()}, {"k": "float", "v": (1e22).hex()},
              {"k": "float", "v": (0.1234567891234).hex()}],
    "bool": [{"k": "bool", "v": True}, {"k": "bool", "v": False}],
    "dt": [{"k": "dt", "v": "2012-03-02T10:30:00"}, {"k": "dt", "v": "2012-03-02T10:30:00.120000+05:30"},
           {"k": "dt", "v": "1970-01-01T00:00:00+00:00"}],
    "uri": [{"k": "uri", "v": "http://example.org/q?x=1&y=2#f"}],
    "qn": [{"k": "qn", "ns": EX, "local": "val", "prefix": "ex"}, {"k": "qn", "ns": "http://b/ns#", "local": "v2", "prefix": "other"}],
    "lang": [{"k": "lang", "v": "bonjour", "lang": "fr-CA"}, {"k": "lang", "v": "", "lang": "en"}],
    "lit": [{"k": "lit", "v": "1.50", "dt": _n("decimal", ns=spec.XSD_NS, prefix="xsd")},
            {"k": "lit", "v": "x", "dt": _n("T", ns="http://types.example/t#", prefix="ty")}],
    "tlit": [{"k": "tlit", "v": "5", "dt": "int", "py": {"k": "int", "v": 5}},
             {"k": "tlit", "v": "true", "dt": "boolean", "py": {"k": "bool", "v": True}}],
}


def relation_cells(profile="json", time_as=("dt",)):
    """kind x optional mask x identified -> recipes"""
    for kind in spec.KIND_LIST:
        pname, tname, is_el, fargs, mand, fac, fac_id = spec.KINDS[kind]
        opt = fargs[mand:]
        for mask in itertools.product([False, True], repeat=len(opt)):
            for identified in ([True] if is_el else [False, True]):
                for with_attr in (False, True):
                    formal = {}
                    for i, (arg, typ) in enumerate(fargs):
                        present = i < mand or mask[i - mand]
                        if not present:
                            continue
                        if typ == "ref":
                            formal[arg] = {"name": _n("arg%d" % i)}
                        else:
                            formal[arg] = {"t": "2012-03-02T10:30:0%d" % i, "as": time_as[0]}
                    attrs = [[_n("k", "str"), {"k": "str", "v": "v"}]] if with_attr else []
                    ident = _n("r1", "str") if identified else None
                    via = "factory" if (fac_id or not identified) else "new_record"
                    ops = [["ns", 0, "ex", EX], ["rec", 0, kind, ident, formal, attrs, via]]
                    yield {"profile": profile, "ops": ops, "cell": ["rel", kind, list(mask), identified, with_attr]}


def value_cells(profile="json", kinds=None, slots=None):
    """value kind x attribute slot x record class"""
    slots = slots or ["type", "label", "value", "location", "role", "user", "userdefault"]
    for vk, vals in REPRESENTATIVE_VALUES.items():
        if kinds is not None and vk not in kinds:
            continue
        for val in vals:
            for slot in slots:
                for rk in ("entity", "activity", "generation", "association"):
                    if slot == "user":
                        nm = _n("k", "str")
                    elif slot == "userdefault":
                        nm = {"ns": "http://d.org/", "local": "dk", "prefix": "", "as": "bare"}
                    else:
                        nm = {"ns": spec.PROV_NS, "local": slot, "prefix": "prov", "as": "str"}
                    formal = {}
                    for i, (arg, typ) in enumerate(spec.formal_args(rk)[:spec.mandatory(rk)]):
                        formal[arg] = {"name": _n("arg%d" % i)}
                    ident = _n("r1", "str") if spec.KINDS[rk][2] else None
                    ops = [["ns", 0, "ex", EX], ["default", 0, "http://d.org/"],
                           ["rec", 0, rk, ident, formal, [[nm, val]], "factory"]]
                    yield {"profile": profile, "ops": ops, "cell": ["val", vk, slot, rk]}
