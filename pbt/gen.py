"""Hypothesis strategies for document *recipes* (JSON-serialisable lists of public-API calls).

"Intent before spelling": every name is generated as (namespace URI, local part) first; the
spelling ("qn" object on the caller's own Namespace, 'prefix:local' string, bare local, full URI)
is only a preference which build.py honours when the public API says that spelling denotes the
intended URI in that scope, and otherwise falls back to a QualifiedName object.
"""
import datetime
from hypothesis import strategies as st

from . import spec

NS_URIS = ["http://a/", "http://a/x/", "http://b/ns#", "urn:c:", "http://d.org/", "http://A/", "http://a/my%20data/"]
PREFIXES = ["ex", "p", "ex_1", "dn", "dn_1", "q"]
RESERVED_PREFIXES = ["xsd", "prov", "xsi"]   # user declarations of these must be renamed, never shadow the built-ins
ID_LOCALS = ["e1", "e2", "a1", "ag1", "x", "r1"]
ATTR_LOCALS = ["k", "k2", "name"]
# application attributes whose local part is also the local part of a PROV attribute (they are NOT the PROV ones)
PROV_LOOKALIKE_LOCALS = ["time", "entity", "agent", "type", "label", "value", "plan", "startTime", "activity", "role"]
TYPES_NS = "http://types.example/t#"   # a namespace documents never register themselves

PROFILES = ("json", "xml", "provn", "rdf", "graph", "dot", "io")

_ASCII_LOCAL = "abcXYZ019_"


def _local_alphabet(profile, role):
    if profile in ("rdf", "io"):
        return _ASCII_LOCAL, ""
    extra = "-."
    if role == "id" or profile in ("json", "provn", "graph", "dot"):
        extra += "/"
    if profile == "dot":
        extra += '"\\<>&{}| %'     # identifiers that are hostile to DOT / HTML-like labels / format strings
    if profile != "provn":
        return _ASCII_LOCAL + "é漢", extra
    return _ASCII_LOCAL + "é漢", extra


@st.composite
def local_part(draw, profile="json", role="id"):
    first, extra = _local_alphabet(profile, role)
    pool = ID_LOCALS if role == "id" else ATTR_LOCALS
    roll = draw(st.integers(0, 19))
    if roll < 14:
        return draw(st.sampled_from(pool))
    if roll == 14 and role != "id":
        return draw(st.sampled_from(PROV_LOOKALIKE_LOCALS))
    head = draw(st.sampled_from(first if role == "id" else first.replace("0", "").replace("1", "").replace("9", "")))
    n = draw(st.integers(0, 5))
    body = "".join(draw(st.lists(st.sampled_from(first + extra), min_size=n, max_size=n)))
    s = head + body
    while s.endswith("."):
        s = s[:-1] + "_"
    return s


@st.composite
def name_ref(draw, profile="json", role="id", spellings=("qn", "qn", "str", "bare", "uri")):
    ns = draw(st.sampled_from(NS_URIS if role != "id" else NS_URIS + NS_URIS[:1] * 3))
    local = draw(local_part(profile, role))
    prefix = draw(st.sampled_from(PREFIXES + PREFIXES + (["", "xsd", "prov"] if profile not in ("rdf", "io") else [])))
    as_ = draw(st.sampled_from(spellings))
    if role == "attr" and profile not in ("rdf", "io") and draw(st.integers(0, 24)) == 0:
        # an application attribute that lives in the XML Schema namespace itself (built-in prefix, never declared)
        return {"ns": spec.XSD_NS, "local": draw(st.sampled_from(["maxLength", "pattern", "token"])), "prefix": "xsd", "as": as_ if as_ in ("qn", "str") else "qn"}
    return {"ns": ns, "local": local, "prefix": prefix, "as": as_}


def prov_name(local, as_="qn"):
    return {"ns": spec.PROV_NS, "local": local, "prefix": "prov", "as": as_}


# ---------------------------------------------------------------------------- values
_NASTY = ['"', "'", "\\", "\n", "\r", "\t", "<", ">", "&", "{", "}", "|", "%", "@", " ", "é", "漢", "\U0001F600",
          "a", "b", "1", "-", ":", ";", "[", "]", "=", ",", "(", ")", '"""', "\\n", "]]>", "&amp;", "<br/>"]


def text_value(profile):
    if profile == "json":
        alpha = st.one_of(st.sampled_from(_NASTY), st.characters(exclude_categories=["Cs"]))
    elif profile in ("xml", "io"):
        nasty = [c for c in _NASTY if c != "\r"]
        alpha = st.one_of(st.sampled_from(nasty),
                          st.characters(exclude_categories=["Cs", "Cc"],
                                        exclude_characters="￾￿"))
    elif profile == "rdf":
        nasty = [c for c in _NASTY if c not in ("\r",)]
        alpha = st.one_of(st.sampled_from(nasty), st.characters(exclude_categories=["Cs", "Cc"],
                                                                exclude_characters="￾￿"))
    else:  # provn, graph, dot
        alpha = st.one_of(st.sampled_from(_NASTY), st.characters(exclude_categories=["Cs", "Cc"]))
    return st.lists(alpha, min_size=0, max_size=6).map("".join)


_INT_EDGES = [0, 1, -1, 2**31 - 1, 2**31, -2**31, -2**31 - 1, 2**63 - 1, 2**63, -2**63, 2**64, 10**30, -10**30]


def int_value():
    return st.one_of(st.sampled_from(_INT_EDGES), st.integers(-1000, 1000), st.integers())


def float_value():
    return st.one_of(
        st.sampled_from([0.0, -0.0, 1.0, -1.5, 0.1, 1e22, 1e-7, 5e-324, 1.7976931348623157e308,
                         0.1234567891234, 123456789.125, 1e16, 3.0]),
        st.floats(allow_nan=False, allow_infinity=False),
    )


_OFFSETS = [None, 0, 60, -60, 330, -570, 840, -720, 1]


@st.composite
def datetime_iso(draw, profile="json"):
    year = draw(st.one_of(st.integers(1900, 2100), st.integers(1000, 9999)))
    d = datetime.datetime(year, draw(st.integers(1, 12)), draw(st.integers(1, 28)),
                          draw(st.integers(0, 23)), draw(st.integers(0, 59)), draw(st.integers(0, 59)),
                          draw(st.sampled_from([0, 0, 1, 500000, 999999, 120000])))
    if draw(st.integers(0, 14)) == 0:
        d = d.replace(hour=0, minute=0, second=0, microsecond=0)      # midnight (has a second spelling: T24:00:00)
    off = draw(st.sampled_from(_OFFSETS))
    if off is not None:
        d = d.replace(tzinfo=datetime.timezone(datetime.timedelta(minutes=off)))
    return d.isoformat()


_URIS = ["http://example.org/a", "urn:x:1", "http://a/e1", "mailto:a@b.c", "http://example.org/q?x=1&y=2#f",
         "http://example.org/é", "file:///tmp/x y", "prov:looks-like-a-prov-name", "xsd:string", "data/input.csv", "../out/x.json", "#sec"]
_LANGS = ["en", "fr-CA", "de", "EN-gb", "es-419", "de-1996", "sl-rozaj-1994"]
_FOREIGN_XSD = ["float", "decimal", "gYear", "integer", "short", "token", "date", "unsignedInt"]


def typed_literal(profile):
    user_dt = st.builds(lambda ns, l, p: {"ns": ns, "local": l, "prefix": p, "as": "qn"},
                        st.sampled_from(NS_URIS + [TYPES_NS]), st.sampled_from(["T", "t2", "Temp"]),
                        st.sampled_from(["ty", "ex", "p"] + ([""] if profile not in ("rdf", "io") else [])))
    xsd_dt = st.sampled_from(_FOREIGN_XSD + (["QName"] if profile == "json" else [])).map(
        lambda l: {"ns": spec.XSD_NS, "local": l, "prefix": "xsd", "as": "qn"})
    lex = st.one_of(st.sampled_from(["1", "1.50", "2012", "abc", "", " 7 ", "ex:foo"]), text_value(profile))
    # prov:InternationalizedString WITHOUT a language tag is just another datatype
    istr = st.just({"ns": spec.PROV_NS, "local": "InternationalizedString", "prefix": "prov", "as": "qn"})
    return st.builds(lambda v, dt: {"k": "lit", "v": v, "dt": dt}, lex, st.one_of(xsd_dt, user_dt, xsd_dt, user_dt, istr))


def native_typed_literal():
    """Literal(lexical, one of the natively converted XSD datatypes), valid lexical forms only."""
    return st.one_of(
        st.integers(-10**12, 10**12).map(lambda n: {"k": "tlit", "v": str(n), "dt": "int", "py": {"k": "int", "v": n}}),
        st.integers(-10**20, 10**20).map(lambda n: {"k": "tlit", "v": str(n), "dt": "long", "py": {"k": "int", "v": n}}),
        st.floats(allow_nan=False, allow_infinity=False).map(
            lambda f: {"k": "tlit", "v": repr(f), "dt": "double", "py": {"k": "float", "v": f.hex()}}),
        st.sampled_from([("true", True), ("false", False), ("1", True), ("0", False)]).map(
            lambda t: {"k": "tlit", "v": t[0], "dt": "boolean", "py": {"k": "bool", "v": t[1]}}),
        st.sampled_from(["plain", "", "a b", "é", " padded ", "line\n", "\tcell", " "]).map(
            lambda s: {"k": "tlit", "v": s, "dt": "string", "py": {"k": "str", "v": s}}),
        st.sampled_from(_URIS).map(lambda u: {"k": "tlit", "v": u, "dt": "anyURI", "py": {"k": "uri", "v": u}}),
        datetime_iso().map(lambda t: {"k": "tlit", "v": t, "dt": "dateTime", "py": {"k": "dt", "v": t}}),
        # the Literal is built from a Python value of ANOTHER native type whose str() is a valid lexical form:
        # the stated datatype decides, not the Python type of the constructor argument
        st.integers(-1000, 1000).map(lambda n: {"k": "tlit", "v": str(n), "native": n, "dt": "double", "py": {"k": "float", "v": float(n).hex()}}),
        st.sampled_from([0, 1]).map(lambda n: {"k": "tlit", "v": str(n), "native": n, "dt": "boolean", "py": {"k": "bool", "v": bool(n)}}),
        st.integers(-1000, 1000).map(lambda n: {"k": "tlit", "v": str(n), "native": n, "dt": "string", "py": {"k": "str", "v": str(n)}}),
        st.sampled_from([3.0, -2.0, 10.0]).map(lambda f: {"k": "tlit", "v": str(int(f)), "native": int(f), "dt": "long", "py": {"k": "int", "v": int(f)}}),
    )


def value(profile="json", kinds=None):
    opts = {
        "str": text_value(profile).map(lambda s: {"k": "str", "v": s}),
        "int": int_value().map(lambda n: {"k": "int", "v": n}),
        "float": float_value().map(lambda f: {"k": "float", "v": f.hex()}),
        "bool": st.booleans().map(lambda b: {"k": "bool", "v": b}),
        "dt": datetime_iso(profile).map(lambda t: {"k": "dt", "v": t}),
        "uri": st.sampled_from(_URIS).map(lambda u: {"k": "uri", "v": u}),
        "qn": name_ref(profile, "id", ("qn",)).map(lambda n: dict(n, k="qn")),
        "lang": st.builds(lambda s, t: {"k": "lang", "v": s, "lang": t}, text_value(profile),
                          st.sampled_from(_LANGS if profile not in ("rdf", "io") else ["en", "fr-ca", "de"])),
        "lit": typed_literal(profile),
        "tlit": native_typed_literal(),
    }
    if kinds is None:
        kinds = PROFILE_VALUE_KINDS[profile]
    return st.one_of([opts[k] for k in kinds])


PROFILE_VALUE_KINDS = {
    "json": ["str", "int", "float", "bool", "dt", "uri", "qn", "lang", "lit", "tlit"],
    "xml": ["str", "int", "float", "bool", "dt", "uri", "qn", "lang", "lit", "tlit"],
    "provn": ["str", "int", "float", "bool", "dt", "uri", "qn", "lang", "lit", "tlit"],
    "graph": ["str", "int", "float", "bool", "dt", "uri", "qn", "lang", "lit"],
    "dot": ["str", "int", "float", "bool", "dt", "uri", "qn", "lang", "lit"],
    "rdf": ["str", "int", "bool", "dt", "uri", "qn", "lang"],
    "io": ["str", "int", "bool", "dt", "uri", "qn", "lang"],
}


# --------------------------------------------------- python-equality classes (exclusion by construction)
def _py_light(v):
    """a light python value with the same ==-behaviour as the library value (for exclusion)"""
    k = v["k"]
    if k == "tlit":
        return _py_light(v["py"])
    if k == "int":
        return ("num", v["v"])
    if k == "bool":
        return ("num", int(v["v"]))
    if k == "float":
        return ("num", float.fromhex(v["v"]))
    if k == "dt":
        d = datetime.datetime.fromisoformat(v["v"])
        if d.tzinfo is not None:
            return ("instant", d.astimezone(datetime.timezone.utc).replace(tzinfo=None))
        return ("naive", d)
    if k == "uri":
        return ("id", v["v"])
    if k == "qn":
        return ("id", v["ns"] + v["local"])
    if k == "str":
        return ("str", v["v"])
    if k == "lang":
        return ("lang", v["v"], v["lang"])
    return ("lit", v["v"], v["dt"]["ns"] + v["dt"]["local"])


def _kind_of(v):
    return v["py"]["k"] if v["k"] == "tlit" else v["k"]


def _exact(v):
    if v["k"] == "tlit":
        return _exact(v["py"])
    if v["k"] == "qn":
        return ("qn", v["ns"] + v["local"])
    if v["k"] == "lit":
        return ("lit", v["v"], v["dt"]["ns"] + v["dt"]["local"])
    return tuple(sorted((k, repr(x)) for k, x in v.items()))


def normalise_attrs(attrs):
    """Drop values that compare equal (python ==) to an earlier value of the same attribute while
    differing in kind or exact form: the statement excludes them (set semantics)."""
    kept = []
    seen = {}
    dropped = 0
    for name, val in attrs:
        key = name["ns"] + name["local"]
        pl = _py_light(val)
        clash = False
        for (pl2, ex2) in seen.get(key, []):
            if pl2 == pl and ex2 != _exact(val):
                clash = True
                break
        if clash:
            dropped += 1
            continue
        seen.setdefault(key, []).append((pl, _exact(val)))
        kept.append([name, val])
    return kept, dropped


# ---------------------------------------------------------------------------- records
def attr_name(profile):
    slots = [prov_name(s, a) for s in spec.PROV_ATTR_SLOTS for a in ("qn", "str")]
    return st.one_of(st.sampled_from(slots), name_ref(profile, "attr"), name_ref(profile, "attr"))


def label_value(profile):
    return st.one_of(
        text_value(profile).map(lambda s: {"k": "str", "v": s}),
        st.builds(lambda s, t: {"k": "lang", "v": s, "lang": t}, text_value(profile), st.sampled_from(["en", "de"])),
    )


_PROV_CLASSES = ["Person", "Organization", "SoftwareAgent", "Plan", "Collection", "EmptyCollection", "Bundle",
                 "Revision", "Quotation", "PrimarySource", "Entity"]


def prov_class_spelling():
    """a prov:type value that names a PROV class in one of four ways; only the qualified name IS that class, the
    plain strings and the xsd:anyURI merely spell it and must stay what they are"""
    return st.builds(
        lambda c, how: {"qn": dict(prov_name(c), k="qn"),
                        "str_uri": {"k": "str", "v": spec.PROV_NS + c},
                        "str_pl": {"k": "str", "v": "prov:" + c},
                        "uri": {"k": "uri", "v": spec.PROV_NS + c}}[how],
        st.sampled_from(_PROV_CLASSES), st.sampled_from(["qn", "str_uri", "str_pl", "uri"]))


@st.composite
def attr_list(draw, profile="json", max_size=5):
    n = draw(st.integers(0, max_size))
    out = []
    for _ in range(n):
        nm = draw(attr_name(profile))
        if profile in ("xml", "io") and nm["ns"] == spec.PROV_NS and nm["local"] == "label":
            val = draw(label_value(profile))
        elif nm["ns"] == spec.PROV_NS and nm["local"] == "type" and profile not in ("rdf", "io") and draw(st.integers(0, 3)) == 0:
            val = draw(prov_class_spelling())
        else:
            val = draw(value(profile))
        out.append([nm, val])
    kept, _ = normalise_attrs(out)
    return kept


@st.composite
def ref_arg(draw, profile):
    if draw(st.integers(0, 4)) == 0:
        return {"rec": draw(st.integers(0, 30))}
    return {"name": draw(name_ref(profile, "id"))}


@st.composite
def time_arg(draw, profile):
    return {"t": draw(datetime_iso(profile)), "as": draw(st.sampled_from(["dt", "dt", "str"]))}


@st.composite
def record_op(draw, profile="json", kinds=None, anon_rate=5):
    kind = draw(st.sampled_from(kinds or spec.KIND_LIST))
    name, _t, is_el, fargs, mand, _f, fac_id = spec.KINDS[kind]
    via = draw(st.sampled_from(["factory", "factory", "new_record", "alias"]))
    if is_el:
        ident = draw(name_ref(profile, "id"))
    else:
        if draw(st.integers(0, 9)) < anon_rate:
            ident = None
        else:
            ident = draw(name_ref(profile, "id"))
            if not fac_id:
                via = "new_record"
    formal = {}
    for i, (arg, typ) in enumerate(fargs):
        if i < mand or draw(st.booleans()):
            formal[arg] = draw(ref_arg(profile)) if typ == "ref" else draw(time_arg(profile))
    attrs = draw(attr_list(profile))
    if via == "alias" and kind not in spec.ALIASES:
        via = "factory"
    return ["rec", draw(st.integers(0, 7)), kind, ident, formal, attrs, via]


def ns_op(profile):
    return st.builds(lambda s, p, u: ["ns", s, p, u], st.integers(0, 7),
                     st.sampled_from(PREFIXES + PREFIXES + RESERVED_PREFIXES),
                     st.sampled_from(NS_URIS + ["http://www.w3.org/2001/XMLSchema"]))


def default_op(profile):
    return st.builds(lambda s, u: ["default", s, u], st.integers(0, 7), st.sampled_from(NS_URIS))


def bundle_op(profile):
    return st.builds(lambda n, how: ["bundle", n, how], name_ref(profile, "id"),
                     st.sampled_from(["bundle", "bundle", "add_bundle"]))


def add_attrs_op(profile):
    return st.builds(lambda i, a, f: ["attrs", i, a, f], st.integers(0, 30), attr_list(profile, 3),
                     st.sampled_from(["dict", "pairs"]))


@st.composite
def recipe(draw, profile="json", max_ops=14, bundles=True, kinds=None, min_ops=0):
    weights = []
    if profile not in ("rdf", "io"):
        weights += [default_op(profile)]
    weights += [ns_op(profile)] * 2
    if bundles:
        weights += [bundle_op(profile)]
    weights += [record_op(profile, kinds)] * 7
    weights += [add_attrs_op(profile)]
    if profile in ("json", "xml", "provn"):
        weights += [st.builds(lambda i, k: ["refused", i, k], st.integers(0, 30), st.integers(0, 4))]
    lo = max(min_ops, draw(st.sampled_from([0, 1, 3, 5, 8, 11])))
    ops = draw(st.lists(st.one_of(weights), min_size=lo, max_size=max(max_ops, lo)))
    # repeated identifiers: re-issue an identified record (same kind, same scope) with other attributes
    dups = draw(st.lists(st.tuples(st.integers(0, 30), attr_list(profile, 3), st.booleans()), max_size=2))
    for sel, attrs, same_formal in dups:
        cands = [o for o in ops if o[0] == "rec" and o[3] is not None]
        if not cands:
            break
        o = cands[sel % len(cands)]
        ops.append(["rec", o[1], o[2], o[3], o[4] if same_formal else
                    {k: v for k, v in o[4].items() if k in [a for a, _ in spec.formal_args(o[2])[:spec.mandatory(o[2])]]},
                    attrs, o[6]])
    return {"profile": profile, "ops": ops}
