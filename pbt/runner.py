"""Tiers, shards, evidence, replay, known findings.  Usage: python -m pbt.runner <ID> quick|thorough|--replay <file>"""
import hashlib
import importlib
import json
import os
import shutil
import sys
import time
import traceback
from collections import Counter

ROOT = os.path.dirname(os.path.dirname(os.path.abspath(__file__)))
REPO_SRC = os.environ.get("PROV_SRC", "/repo/src")


class Violation(Exception):
    pass


class HarnessError(Exception):
    pass


class Ctx:
    """per-shard counters handed to the property's check function"""

    def __init__(self):
        self.classes = Counter()
        self.evaluations = 0
        self.nontrivial_hashes = set()
        self.samples = []
        self.known_hits = Counter()
        self.suppressed = Counter()
        self.last_failure = None
        self.harness_error = None
        self._nt = False
        self._sample_every = 1
        self.shrink_cap = 400
        self.fail_calls = 0
        self.failing_hashes = set()

    def count(self, label, n=1):
        self.classes[label] += n

    def nontrivial(self, flag=True):
        self._nt = self._nt or bool(flag)


def case_hash(case):
    return hashlib.sha1(json.dumps(case, sort_keys=True, default=str).encode()).hexdigest()[:16]


def _prov_dir():
    import prov
    return os.path.dirname(os.path.abspath(prov.__file__))


def from_library(exc):
    """True when the innermost frames of the traceback are in the library (or below it)."""
    pd = _prov_dir()
    tb = traceback.extract_tb(exc.__traceback__)
    here = os.path.join(ROOT, "pbt")
    last_lib = None
    last_harness = None
    for i, fr in enumerate(tb):
        fn = os.path.abspath(fr.filename)
        if fn.startswith(pd + os.sep):
            last_lib = i
        elif fn.startswith(here + os.sep):
            last_harness = i
    return last_lib is not None and (last_harness is None or last_lib > last_harness)


def exc_item(exc, stage):
    pd = _prov_dir()
    func = "?"
    for fr in reversed(traceback.extract_tb(exc.__traceback__)):
        if os.path.abspath(fr.filename).startswith(pd + os.sep):
            func = "%s:%s" % (os.path.basename(fr.filename), fr.name)
            break
    return {"b": "exc:%s:%s:%s" % (stage, type(exc).__name__, func), "msg": str(exc)[:300]}


def load_findings(prop_id):
    path = os.path.join(ROOT, "known_findings.json")
    if not os.path.exists(path):
        return []
    with open(path) as f:
        data = json.load(f)
    return [x for x in data.get("findings", []) if x.get("property") == prop_id and x.get("status", "open") == "open"]


def filter_known(mod, case, items, findings, ctx=None):
    if not findings or not items:
        return items
    matchers = getattr(mod, "KNOWN_MATCHERS", {})
    rest = []
    for it in items:
        hit = None
        for f in findings:
            m = matchers.get(f["matcher"])
            if m is not None and m(case, it):
                hit = f["id"]
                break
        if hit is None:
            rest.append(it)
        elif ctx is not None:
            ctx.known_hits[hit] += 1
    return rest


def evaluate(mod, case, ctx, findings, reported, raise_=True):
    if ctx.harness_error is not None:
        return []
    ctx.evaluations += 1
    if ctx.last_failure is not None:
        ctx.fail_calls += 1
    ctx._nt = False
    try:
        items = mod.check(case, ctx)
    except (Violation, HarnessError):
        raise
    except Exception as e:  # noqa
        if from_library(e):
            items = [exc_item(e, "unexpected")]
        else:
            ctx.harness_error = "".join(traceback.format_exception(type(e), e, e.__traceback__))[-4000:] + \
                "\nCASE: " + json.dumps(case, default=str)[:3000]
            return []
    if ctx._nt:
        ctx.nontrivial_hashes.add(case_hash(case))
        if len(ctx.samples) < 3 and ctx.evaluations % ctx._sample_every == 0:
            ctx.samples.append(case)
    return judge(mod, case, items, ctx, findings, reported, raise_)


def judge(mod, case, items, ctx, findings, reported, raise_=True):
    """known-finding filtering, bucketing, duplicate suppression, shrink cap; raises Violation"""
    items = filter_known(mod, case, items, findings, ctx)
    if not items:
        return []
    bucket = "+".join(sorted(set(i["b"] for i in items)))
    if bucket in reported:
        ctx.suppressed[bucket] += 1
        return []
    # bound the shrinking effort: after shrink_cap further calls only cases that already failed keep failing
    # (consistent from Hypothesis' point of view), which makes the shrinker converge on its current best
    h = case_hash(case)
    if ctx.fail_calls > ctx.shrink_cap and h not in ctx.failing_hashes:
        return []
    ctx.failing_hashes.add(h)
    ctx.last_failure = (case, items, bucket)
    if raise_:
        raise Violation(bucket)
    return items


def _setup_path():
    for p in (REPO_SRC, ROOT):
        if p not in sys.path:
            sys.path.insert(0, p)


def run_shard(args):
    prop_id, tier, seed, shard, nshards, workdir = args
    _setup_path()
    os.makedirs(workdir, exist_ok=True)
    os.environ["TMPDIR"] = workdir
    import tempfile
    tempfile.tempdir = workdir
    import logging
    logging.disable(logging.CRITICAL)
    import warnings
    warnings.simplefilter("ignore")
    from hypothesis import given, settings, HealthCheck, seed as hseed, Phase
    mod = importlib.import_module("pbt.props." + prop_id.lower())
    findings = load_findings(prop_id)
    budget = mod.budget(tier)
    ctx = Ctx()
    ctx.shard = shard
    ctx.workdir = workdir
    ctx.tier = tier
    ctx._sample_every = 7
    ctx.shrink_cap = 400 if tier == "quick" else 3000
    reported = set()
    failures = []
    t0 = time.time()

    def record_failure():
        case, items, bucket = ctx.last_failure
        failures.append({"case": case, "items": items, "bucket": bucket})
        reported.add(bucket)
        ctx.last_failure = None
        ctx.fail_calls = 0
        ctx.failing_hashes = set()

    # 1. exhaustive core
    matrix_cells = 0
    if hasattr(mod, "matrix"):
        for i, case in enumerate(mod.matrix(tier)):
            if i % nshards != shard:
                continue
            matrix_cells += 1
            try:
                evaluate(mod, case, ctx, findings, reported)
            except Violation:
                record_failure()
            if len(failures) >= (1 if tier == "quick" else 3) or ctx.harness_error:
                break

    # 2. random phase
    n = budget.get("examples", 0)
    if n and not ctx.harness_error and hasattr(mod, "strategy"):
        for attempt in range(3):
            if len(failures) >= (1 if tier == "quick" else 2):   # one shrunk bucket per shard in the quick tier
                break

            @hseed(seed * 1000 + shard)
            @settings(max_examples=n, deadline=None, database=None, derandomize=False,
                      report_multiple_bugs=False, print_blob=False,
                      phases=[Phase.explicit, Phase.reuse, Phase.generate, Phase.target, Phase.shrink],
                      suppress_health_check=[HealthCheck.too_slow, HealthCheck.data_too_large,
                                             HealthCheck.large_base_example])
            @given(mod.strategy(tier))
            def test(case):
                evaluate(mod, case, ctx, findings, reported)

            try:
                test()
                break
            except Violation:
                record_failure()
            except Exception as e:  # hypothesis errors (health checks, flaky): harness problems
                if ctx.last_failure is not None:
                    # includes Hypothesis' Flaky errors: the recorded case DID produce a real diff at least once; a
                    # library whose outcome varies between runs of one input and sometimes violates is violating
                    if "Flaky" in type(e).__name__:
                        ctx.last_failure[1].append({"b": "note:outcome_varies_between_runs"})
                    record_failure()
                else:
                    ctx.harness_error = "".join(traceback.format_exception(type(e), e, e.__traceback__))[-4000:]
                    break
            if ctx.harness_error:
                break

    # 3. stateful machines
    if not ctx.harness_error and hasattr(mod, "run_stateful"):
        try:
            mod.run_stateful(tier, seed * 1000 + shard, ctx, findings, reported, failures)
        except HarnessError as e:
            ctx.harness_error = str(e)
        except Exception as e:  # noqa
            ctx.harness_error = "".join(traceback.format_exception(type(e), e, e.__traceback__))[-4000:]

    return {
        "shard": shard, "evaluations": ctx.evaluations, "classes": dict(ctx.classes),
        "hashes": sorted(ctx.nontrivial_hashes), "samples": ctx.samples, "failures": failures,
        "known_hits": dict(ctx.known_hits), "suppressed": dict(ctx.suppressed),
        "harness_error": ctx.harness_error, "matrix_cells": matrix_cells, "wall": time.time() - t0,
    }


def write_replay(prop_id, failure, seed, tier):
    d = os.path.join(ROOT, "replays")
    os.makedirs(d, exist_ok=True)
    h = case_hash({"c": failure["case"], "b": failure["bucket"]})[:8]
    path = os.path.join(d, "%s-%s.json" % (prop_id, h))
    with open(path, "w") as f:
        json.dump({"property": prop_id, "case": failure["case"], "bucket": failure["bucket"],
                   "diff": failure["items"][:20], "seed": seed, "tier": tier}, f, indent=1, default=str)
    return path


def replay(prop_id, path):
    _setup_path()
    import logging
    logging.disable(logging.CRITICAL)
    import warnings
    warnings.simplefilter("ignore")
    mod = importlib.import_module("pbt.props." + prop_id.lower())
    with open(path) as f:
        data = json.load(f)
    case = data["case"] if isinstance(data, dict) and "case" in data else data
    ctx = Ctx()
    ctx.workdir = _mk_workdir(prop_id)
    ctx.tier = "quick"
    ctx.shard = 0
    os.environ["TMPDIR"] = ctx.workdir
    import tempfile
    tempfile.tempdir = ctx.workdir
    try:
        findings = load_findings(prop_id)
        try:
            items = evaluate(mod, case, ctx, findings, set(), raise_=False)
        finally:
            pass
        if ctx.harness_error:
            print(ctx.harness_error)
            return 2
        if items:
            for it in items[:10]:
                print("  diff:", json.dumps(it, default=str)[:400])
            print("VIOLATION property=%s replay=%s" % (prop_id, path))
            return 1
        print("REPLAY OK property=%s (no violation on this tree)" % prop_id)
        return 0
    finally:
        shutil.rmtree(ctx.workdir, ignore_errors=True)


def _mk_workdir(prop_id):
    base = os.path.join(ROOT, ".work")
    os.makedirs(base, exist_ok=True)
    d = os.path.join(base, "%s-%d" % (prop_id, os.getpid()))
    os.makedirs(d, exist_ok=True)
    return d


def known_finding_lines(prop_id, mod):
    """replay every listed open witness; print KNOWN-FINDING when it still fails"""
    out = []
    for f in load_findings(prop_id):
        wpath = os.path.join(ROOT, f["witness"])
        with open(wpath) as fh:
            data = json.load(fh)
        case = data["case"]
        ctx = Ctx()
        ctx.workdir = _mk_workdir(prop_id)
        ctx.tier = "quick"
        ctx.shard = 0
        try:
            items = mod.check(case, ctx)
        except Exception as e:  # noqa
            if from_library(e):
                items = [exc_item(e, "unexpected")]
            else:
                raise
        m = getattr(mod, "KNOWN_MATCHERS", {}).get(f["matcher"])
        if m is not None and any(m(case, it) for it in items):
            out.append("KNOWN-FINDING: property=%s %s [%s] witness=%s" % (prop_id, f["title"], f["id"], f["witness"]))
    return out


def main(argv):
    if len(argv) < 2:
        print(__doc__)
        return 2
    prop_id = argv[0].upper()
    if argv[1] == "--replay":
        return replay(prop_id, argv[2])
    tier = argv[1]
    if tier not in ("quick", "thorough"):
        print("tier must be quick or thorough")
        return 2
    seed = int(os.environ.get("VERIF_SEED", "1") or "1")
    _setup_path()
    import logging
    logging.disable(logging.CRITICAL)
    t0 = time.time()
    mod = importlib.import_module("pbt.props." + prop_id.lower())
    budget = mod.budget(tier)
    nshards = int(os.environ.get("VERIF_SHARDS", budget.get("shards", 8)))
    workdir = _mk_workdir(prop_id)
    ev_path = os.path.join(ROOT, "evidence", prop_id + ".json")
    try:
        if os.path.exists(ev_path):
            os.remove(ev_path)
    except OSError:
        pass
    rc = 0
    try:
        if hasattr(mod, "preflight"):
            msg = mod.preflight()
            if msg:
                print("HARNESS-ERROR property=%s %s" % (prop_id, msg))
                return 2
        kf_lines = known_finding_lines(prop_id, mod)
        for line in kf_lines:
            print(line)
        import multiprocessing as mp
        from concurrent.futures import ProcessPoolExecutor
        jobs = [(prop_id, tier, seed, s, nshards, os.path.join(workdir, "s%d" % s)) for s in range(nshards)]
        if nshards == 1 or os.environ.get("VERIF_INLINE"):
            results = [run_shard(j) for j in jobs]
        else:
            with ProcessPoolExecutor(max_workers=min(nshards, int(os.environ.get("VERIF_PROCS", "16"))),
                                     mp_context=mp.get_context("spawn")) as ex:
                results = list(ex.map(run_shard, jobs))
        classes = Counter()
        hashes = set()
        samples = []
        failures = []
        known_hits = Counter()
        suppressed = Counter()
        evaluations = 0
        matrix_cells = 0
        herr = None
        for r in results:
            classes.update(r["classes"])
            hashes.update(r["hashes"])
            if len(samples) < 8:
                samples.extend(r["samples"][:1])
            failures.extend(r["failures"])
            known_hits.update(r["known_hits"])
            suppressed.update(r["suppressed"])
            evaluations += r["evaluations"]
            matrix_cells += r["matrix_cells"]
            herr = herr or r["harness_error"]
        # one replay per bucket
        seen = {}
        for fl in failures:
            seen.setdefault(fl["bucket"], fl)
            # prefer the smallest case per bucket
            if len(json.dumps(fl["case"], default=str)) < len(json.dumps(seen[fl["bucket"]]["case"], default=str)):
                seen[fl["bucket"]] = fl
        vio = []
        for bucket, fl in sorted(seen.items()):
            path = write_replay(prop_id, fl, seed, tier)
            vio.append((bucket, path, fl))
        required = getattr(mod, "REQUIRED_CLASSES", {}).get(tier, getattr(mod, "REQUIRED_CLASSES", {}).get("all", []))
        missing = [c for c in required if classes.get(c, 0) == 0]
        if not samples:
            samples = [{"note": "no non-trivial case sampled"}]
        evidence = {
            "property_id": prop_id, "tier": tier, "seed": seed, "level": getattr(mod, "LEVEL", "exploration"),
            "wall_s": round(time.time() - t0, 2), "violations": len(vio),
            "assumptions": getattr(mod, "ASSUMPTIONS", []),
            "coverage": {
                "evaluations": evaluations, "distinct_nontrivial": len(hashes), "rule": mod.RULE,
                "samples": [_trunc(s) for s in samples[:8]],
                "classes": dict(sorted(classes.items())), "matrix_cells": matrix_cells,
                "exhaustive_core": bool(matrix_cells), "exhaustive": False, "shards": nshards,
                "known_finding_hits": dict(known_hits), "suppressed_duplicates": dict(suppressed),
                "known_findings_reported": kf_lines, "budget": budget,
                "violation_buckets": [b for b, _, _ in vio],
            },
        }
        if hasattr(mod, "evidence_extra"):
            evidence["coverage"].update(mod.evidence_extra(classes))
        os.makedirs(os.path.dirname(ev_path), exist_ok=True)
        with open(ev_path, "w") as f:
            json.dump(evidence, f, indent=1, default=str)
        print("%s %s seed=%d: %d evaluations (%d matrix), %d distinct non-trivial, %d shards, %.1fs" % (
            prop_id, tier, seed, evaluations, matrix_cells, len(hashes), nshards, time.time() - t0))
        if herr:
            print("HARNESS-ERROR property=%s\n%s" % (prop_id, herr))
            return 2
        if hasattr(mod, "inconclusive") and not vio and not herr:
            msg = mod.inconclusive(classes)
            if msg:
                print("HARNESS-ERROR property=%s inconclusive: %s" % (prop_id, msg))
                return 2
        if missing and not vio:
            print("HARNESS-ERROR property=%s generator produced no case of class(es): %s" % (prop_id, missing))
            return 2
        for bucket, path, fl in vio:
            print("  bucket:", bucket)
            for it in fl["items"][:4]:
                print("    diff:", json.dumps(it, default=str)[:300])
            print("VIOLATION property=%s replay=%s" % (prop_id, os.path.relpath(path, ROOT)))
            rc = 1
        return rc
    finally:
        shutil.rmtree(workdir, ignore_errors=True)


def _trunc(s, limit=2500):
    j = json.dumps(s, default=str)
    if len(j) <= limit:
        return s
    return {"truncated": j[:limit]}


if __name__ == "__main__":
    sys.exit(main(sys.argv[1:]))
