"""Child process of the C17 fault-injection check.  It builds a deterministic document, changes into the work
directory and calls serialize(destination=<file name>).  It reports ONLY through its exit status (os._exit), so that
no write of the harness is among the enumerated fault points:  0 returned normally, 3 an exception reached the
caller, 4 the call returned something unexpected.
usage: child.py <src dir> <work dir> <format> <file name> <size> [raise | fsize=<bytes> | again=<second work dir>]
  fsize=N   sets RLIMIT_FSIZE to N just before the call (the kernel then performs a real SHORT write up to the limit and
            fails the next one with EFBIG; Python ignores SIGXFSZ)
  again=D   after the first call: chdir to D and serialise to the same (relative) name again, in the same process"""
import os
import sys


def make_doc(size, poison=False):
    import datetime
    from prov.model import ProvDocument
    d = ProvDocument()
    d.add_namespace("ex", "http://example.org/ns/")
    if size < 0:
        # a document dominated by multi-byte characters: its UTF-8 length is far from its length in characters
        d.entity("ex:dense", {"ex:note": "漢é" * (-size), "ex:n": size})
        size = 1
    for i in range(size):
        e = d.entity("ex:e%d" % i, {"ex:note": "entité numéro %d — 漢字 %s" % (i, "x" * 40), "ex:n": i})
        a = d.activity("ex:a%d" % i, datetime.datetime(2012, 1, 1, 0, 0, i % 60))
        d.wasGeneratedBy(e, a, datetime.datetime(2012, 1, 2, 0, 0, i % 60))
    b = d.bundle("ex:bundle")
    b.agent("ex:ag", {"prov:label": "agent in bundle"})
    if poison:
        class Boom(str):
            def __str__(self):
                raise RuntimeError("value cannot be printed")

            def isoformat(self):
                raise RuntimeError("value cannot be printed")
        # a document whose serialisation itself fails half way (formal attribute set directly, as loaded data could be)
        from prov.constants import PROV_ATTR_TIME
        rec = list(d.get_records())[-1]
        rec._attributes[PROV_ATTR_TIME] = {Boom("boom")}
    return d


def pin_bnodes():
    import itertools
    import rdflib.term as T
    counter = itertools.count(1)

    class U:
        def __init__(self, n):
            self.hex = "%032x" % n
    T.uuid4 = lambda: U(next(counter))


def main(argv):
    src, work, fmt, name, size = argv[0], argv[1], argv[2], argv[3], int(argv[4])
    extra = argv[5] if len(argv) > 5 else ""
    poison = extra == "raise"
    sys.path.insert(0, src)
    import logging
    logging.disable(logging.CRITICAL)
    import prov.model  # noqa
    from prov import serializers
    serializers.get(fmt)      # load the serializer modules before the call under test
    pin_bnodes()
    d = make_doc(size, poison)
    os.chdir(work)
    if extra.startswith("fsize="):
        import resource
        n = int(extra.split("=", 1)[1])
        resource.setrlimit(resource.RLIMIT_FSIZE, (n, n))
    try:
        r = d.serialize(name, format=fmt)
        if extra.startswith("again="):
            os.chdir(extra.split("=", 1)[1])
            r2 = d.serialize(name, format=fmt)
            if r2 is not None:
                os._exit(4)
    except BaseException:
        os._exit(3)
    os._exit(0 if r is None else 4)


if __name__ == "__main__":
    main(sys.argv[1:])
