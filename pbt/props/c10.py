"""C10 - emitted PROV-JSON and PROV-XML mean the same to an independent reader."""
import itertools

from hypothesis import strategies as st

from .. import gen
from ..build import build
from ..canon import canon, diff_canon
from ..readers import provjson as rj
from ..readers import provxml as rx
from ..xmlx import why_not_expressible
from . import c01, c02

ID = "C10"
LEVEL = "exploration"
RULE = ("C01's JSON cases (recipes x indent/sort_keys) and C02's XML cases (XML-expressible recipes x force_types x "
        "text/binary), including both exhaustively enumerated cores. Oracle: (1) structural validity predicates written "
        "from the specifications (PROV-JSON: allowed top-level keys, identifier-keyed record objects or arrays, formal "
        "attributes under their prov:* key as strings, values scalar or {$,type} / {$,lang}; PROV-XML: prov:document root, "
        "bundleContent only under the root with prov:id, PROV record elements, reference children carrying exactly "
        "prov:ref, schema child order); (2) the content recovered by an independent reader (own tables of statement names, "
        "argument keys, subtype elements; shares no code with prov) equals the strict canonical content of the document "
        "as multisets. Non-trivial as in C01/C02; distinct by SHA-1 of format + recipe + options.")
ASSUMPTIONS = [
    "independent readers (pbt/readers/provjson.py, provxml.py) are this project's reading of the PROV-JSON submission and the PROV-XML schema",
    "bundle identifiers whose two scope readings differ are counted and not judged",
    "value-space mapping of DESIGN appendix D",
]
REQUIRED_CLASSES = {"all": ["fmt:json", "fmt:xml", "json:record_array", "xml:subtype_element", "has:bundle", "read_then_modified_before_writing"]}
ALL_FORMAL = 44   # (statement, formal key) pairs of the 18 kinds


KNOWN_MATCHERS = {"printed_bundle_id_collision": c01._printed_bundle_id_collision}


def budget(tier):
    return {"shards": 8, "examples": 500} if tier == "quick" else {"shards": 16, "examples": 6000}


def strategy(tier):
    from . import c05
    # some documents are READ (public accessors) and then MODIFIED through every mutator before being written:
    # the emitted text must reflect the document as it is now, not as it was when something was first computed
    follow = st.one_of(st.just([]), st.just([]), st.lists(c05.follow_up_op(), min_size=1, max_size=3))
    j = st.builds(lambda r, o, f: dict(r, fmt="json", opts=o, follow=f), gen.recipe("json"), st.sampled_from(c01.OPTS), follow)
    # some documents written as XML were LOADED from the library's own PROV-JSON (sorted keys) first: what is written
    # must not depend on the order in which a record's attributes happened to be stored
    x = st.builds(lambda c, f, l: dict(c, fmt="xml", follow=f, loaded=l), c02._case(), follow, st.sampled_from([False, False, True]))
    return st.one_of(j, x)


def matrix(tier):
    for c in c01.matrix(tier):
        yield dict(c, fmt="json")
    for c in c02.matrix(tier):
        yield dict(c, fmt="xml")
    from .. import matrix as mx
    for i, c in enumerate(mx.relation_cells("xml")):
        yield dict(c, fmt="xml", opts={"force_types": bool(i % 2)}, loaded=True)
    # a literal whose datatype lives in the DEFAULT namespace (document level / bundle level)
    nd = lambda l: {"ns": "http://d.org/", "local": l, "prefix": "", "as": "qn"}
    ex = lambda l: {"ns": "http://a/", "local": l, "prefix": "ex", "as": "qn"}
    lit = {"k": "lit", "v": "12.5", "dt": nd("centimetre")}
    for fmt in ("json", "xml"):
        for ft in (False, True):
            yield {"profile": fmt, "fmt": fmt, "opts": {"force_types": ft} if fmt == "xml" else {},
                   "ops": [["ns", 0, "ex", "http://a/"], ["default", 0, "http://d.org/"],
                           ["rec", 0, "entity", ex("e1"), {}, [[ex("length"), lit], [gen.prov_name("value"), lit]], "factory"]],
                   "cell": ["default-ns-datatype", fmt, ft, "document"]}
            yield {"profile": fmt, "fmt": fmt, "opts": {"force_types": ft} if fmt == "xml" else {},
                   "ops": [["ns", 0, "ex", "http://a/"], ["bundle", ex("b1"), "bundle"], ["default", 1, "http://d.org/"],
                           ["rec", 1, "entity", ex("e1"), {}, [[ex("length"), lit]], "factory"]],
                   "cell": ["default-ns-datatype", fmt, ft, "bundle"]}
    # formal arguments given in an unusual ORDER over time: the end time at creation, the start time later
    n = lambda l: {"ns": "http://a/", "local": l, "prefix": "ex", "as": "qn"}
    for ft in (False, True):
        yield {"profile": "xml", "fmt": "xml", "opts": {"force_types": ft},
               "ops": [["ns", 0, "ex", "http://a/"], ["rec", 0, "activity", n("a1"), {"endTime": {"t": "2012-03-02T11:30:00", "as": "dt"}}, [], "factory"]],
               "follow": [["set_time", 0, "2012-03-02T10:30:00", None, "dt", "dt"]], "cell": ["late-start-time", ft]}


def check(case, ctx):
    from ..runner import exc_item
    b = build(case)
    d = b.doc
    fmt = case["fmt"]
    opts = case.get("opts") or {}
    if fmt == "xml":
        why = why_not_expressible(d)
        if why:
            ctx.count("not_xml_expressible:" + why)
            return []
    if case.get("follow"):
        from . import c05
        from ..build import apply_op
        from ..touch import readonly_touch
        from ..canon import diff_canon as _dc
        readonly_touch(d, len(case["follow"]))
        dummy = []
        for op in case["follow"]:
            if op[0] in ("readd", "set_time", "asserted_type"):
                c05._c05_op(b, op, dummy, ctx)
            else:
                apply_op(b, op)
        ctx.count("read_then_modified_before_writing")
        if fmt == "xml" and why_not_expressible(d):
            ctx.count("not_xml_expressible:after_follow_up")
            return []
        want = b.expected()      # the intents, so that a stale view inside the library cannot hide on both sides
    else:
        want = canon(d)
        if len(case.get("ops", ())) % 3 == 0:
            from ..touch import readonly_touch
            readonly_touch(d, len(case["ops"]))      # reads must not leak into what is written
            ctx.count("touched_before_writing")
    if case.get("loaded") and fmt == "xml":
        from prov.model import ProvDocument
        try:
            d = ProvDocument.deserialize(content=d.serialize(format="json", sort_keys=True), format="json")
        except Exception as e:
            return [exc_item(e, "json_before_xml")]
        if why_not_expressible(d):
            ctx.count("not_xml_expressible:after_json")
            return []
        ctx.count("loaded_from_json_before_writing_xml")
    ctx.count("fmt:" + fmt)
    ctx.nontrivial(c01.classify(b, ctx, case))
    try:
        if fmt == "json":
            text = d.serialize(format="json", **{k: v for k, v in opts.items() if k in ("indent", "sort_keys", "ensure_ascii")})
        elif opts.get("binary"):
            import io
            buf = io.BytesIO()
            d.serialize(buf, format="xml", force_types=opts.get("force_types", False))
            text = buf.getvalue()
        else:
            text = d.serialize(format="xml", force_types=opts.get("force_types", False))
    except Exception as e:
        return [exc_item(e, "serialize")]
    try:
        if fmt == "json":
            got, info = rj.read(text)
        else:
            got, info = rx.read(text)
    except (rj.ProvJSONStructureError, rx.ProvXMLStructureError) as e:
        return [{"b": "structure:%s:%s" % (fmt, str(e)[:50].split("'")[0].strip()), "msg": str(e)[:200]}]
    except ValueError as e:
        return [{"b": "not_parseable:" + fmt, "msg": str(e)[:200]}]
    except Exception as e:  # xml.etree ParseError etc.
        if type(e).__name__ == "ParseError":
            return [{"b": "not_parseable:" + fmt, "msg": str(e)[:200]}]
        raise
    if info.get("record_arrays"):
        ctx.count("json:record_array")
    if info.get("subtype_elements"):
        ctx.count("xml:subtype_element")
    for k in info.get("formal_keys", ()):
        ctx.count("formal:%s:%s" % (fmt, k))
    if info["ambiguous_bundle_ids"]:
        ctx.count("excluded_ambiguous_bundle_id")
        return []
    return diff_canon(want, got)


def evidence_extra(classes):
    fj = sorted(k for k in classes if k.startswith("formal:json:"))
    fx = sorted(k for k in classes if k.startswith("formal:xml:"))
    return {"formal_keys_seen_json": len(fj), "formal_keys_seen_xml": len(fx)}
