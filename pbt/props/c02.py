"""C02 - PROV-XML round trip preserves every XML-expressible document exactly."""
from hypothesis import strategies as st

from .. import gen
from .. import matrix as mx
from ..build import build
from ..canon import canon, diff_canon
from ..xmlx import why_not_expressible
from .c01 import classify

ID = "C02"
LEVEL = "exploration"
RULE = ("Document recipes of the 'xml' profile (NCName attribute local parts, XML 1.0 characters without CR, prov:label "
        "plain or language-tagged, no xsd:QName-typed literal; expressibility re-checked on the BUILT document through "
        "public accessors) x force_types in {False, True} x {text, binary} destination; bundles with own prefixes and own "
        "default namespace, default-namespace attribute names, subtype prov:type values as QualifiedName and as plain "
        "string, empty strings, strings with surrounding whitespace. Exhaustive core: kind x optional mask x identified x "
        "attribute, and value kind x attribute slot (prov:type/label/value/location/role, user, default-namespace user) x "
        "record class x force_types. Oracle: strict URI-level kind-aware multiset equality after deserialize(serialize()). "
        "Non-trivial = C01's rule plus a typed (non-string) value, a subtype element or a default-namespace name; "
        "distinct by SHA-1 of recipe + options.")
ASSUMPTIONS = [
    "documents outside the statement's XML-expressible subspace are counted (not_xml_expressible:*) and never fed to the writer",
    "strict comparison computed from public accessors only",
]
REQUIRED_CLASSES = {"all": ["has:bundle", "has:default_ns", "opt:force_types=True", "opt:force_types=False", "opt:binary=True",
                            "subtype_value", "value:lit", "value:lang", "value:dt"]}

SUBTYPES = ["Person", "Organization", "SoftwareAgent", "Plan", "Collection", "EmptyCollection", "Revision", "Quotation",
            "PrimarySource", "Bundle", "Entity", "Activity"]


def budget(tier):
    return {"shards": 8, "examples": 450} if tier == "quick" else {"shards": 16, "examples": 5000}


@st.composite
def _case(draw):
    r = draw(gen.recipe("xml"))
    # subtype prov:type values, as QualifiedName and as plain string (must not be folded)
    extra = draw(st.lists(st.tuples(st.integers(0, 3), st.sampled_from(SUBTYPES), st.sampled_from(["qn", "qn", "str", "lit", "uri"])), max_size=3))
    ops = list(r["ops"])
    for sel, sub, how in extra:
        if how == "qn":
            val = {"k": "qn", "ns": "http://www.w3.org/ns/prov#", "local": sub, "prefix": "prov"}
        elif how == "str":
            val = {"k": "str", "v": "prov:" + sub}
        elif how == "uri":
            val = {"k": "uri", "v": "http://www.w3.org/ns/prov#" + sub}
        else:
            val = {"k": "str", "v": sub}
        ops.append(["attrs", sel, [[gen.prov_name("type"), val]], "pairs"])
    return dict(r, ops=ops, opts={"force_types": draw(st.booleans()), "binary": draw(st.booleans())})


def strategy(tier):
    return _case()


def matrix(tier):
    i = 0
    for c in mx.relation_cells("xml"):
        i += 1
        yield dict(c, opts={"force_types": bool(i % 2), "binary": bool(i % 3 == 0)})
        yield dict(c, opts={"force_types": bool(i % 2), "binary": bool(i % 3 == 0)}, touch=True)
    for ft in (False, True):
        for c in mx.value_cells("xml"):
            i += 1
            yield dict(c, opts={"force_types": ft, "binary": bool(i % 3 == 0)})
    # subtype values on every element / derivation
    for sub in SUBTYPES:
        for how in ("qn", "str", "uri"):
            for kind in ("entity", "agent", "activity", "derivation"):
                val = ({"k": "qn", "ns": "http://www.w3.org/ns/prov#", "local": sub, "prefix": "prov"} if how == "qn"
                       else {"k": "str", "v": "prov:" + sub} if how == "str"
                       else {"k": "uri", "v": "http://www.w3.org/ns/prov#" + sub})
                formal = {}
                from .. import spec
                for j, (arg, typ) in enumerate(spec.formal_args(kind)[:spec.mandatory(kind)]):
                    formal[arg] = {"name": mx._n("arg%d" % j)}
                for ft in (False, True):
                    yield {"profile": "xml", "ops": [["ns", 0, "ex", mx.EX],
                                                     ["rec", 0, kind, mx._n("r1", "str"), formal,
                                                      [[gen.prov_name("type"), val], [gen.prov_name("type"), {"k": "str", "v": "other"}]],
                                                      "new_record" if kind == "derivation" else "factory"]],
                           "opts": {"force_types": ft, "binary": False}, "cell": ["subtype", sub, how, kind]}


    # two PROV subtypes of the record's own base class on ONE record: only one may be folded into the element name
    pairs = [("agent", "Person", "SoftwareAgent"), ("agent", "Organization", "Person"), ("entity", "Plan", "Collection"),
             ("entity", "Collection", "EmptyCollection"), ("entity", "Bundle", "Plan"),
             ("derivation", "Revision", "Quotation"), ("derivation", "PrimarySource", "Revision")]
    from .. import spec as _spec
    for kind, s1, s2 in pairs:
        formal = {}
        for j, (arg, typ) in enumerate(_spec.formal_args(kind)[:_spec.mandatory(kind)]):
            formal[arg] = {"name": mx._n("arg%d" % j)}
        vals = [[gen.prov_name("type"), {"k": "qn", "ns": "http://www.w3.org/ns/prov#", "local": x, "prefix": "prov"}] for x in (s1, s2)]
        for ft in (False, True):
            yield {"profile": "xml", "ops": [["ns", 0, "ex", mx.EX], ["rec", 0, kind, mx._n("r1", "str"), formal, vals,
                                                                     "new_record" if kind == "derivation" else "factory"]],
                   "opts": {"force_types": ft, "binary": False}, "cell": ["two_subtypes", kind, s1, s2]}


def roundtrip(d, opts):
    import io
    from prov.model import ProvDocument
    if opts.get("binary"):
        buf = io.BytesIO()
        d.serialize(buf, format="xml", force_types=opts.get("force_types", False))
        data = buf.getvalue()
        return data.decode("utf-8"), ProvDocument.deserialize(io.BytesIO(data), format="xml")
    text = d.serialize(format="xml", force_types=opts.get("force_types", False))
    return text, ProvDocument.deserialize(content=text, format="xml")


def check(case, ctx):
    from ..runner import exc_item
    b = build(case)
    d = b.doc
    opts = case.get("opts") or {}
    why = why_not_expressible(d)
    if why:
        ctx.count("not_xml_expressible:" + why)
        return []
    nt = classify(b, ctx, case)
    typed = any(v[0] != "str" for ms in b.model for m in ms for _, v in m["attrs"])
    sub = any(a.endswith("#type") and ((v[0] == "qn" and v[1].startswith("http://www.w3.org/ns/prov#")) or
                                      (v[0] == "str" and v[1].startswith("prov:")))
              for ms in b.model for m in ms for a, v in m["attrs"])
    if sub:
        ctx.count("subtype_value")
    ctx.nontrivial(nt and (typed or sub or any(s.get_default_namespace() is not None for s in b.scopes)))
    for k, v in opts.items():
        ctx.count("opt:%s=%s" % (k, v))
    before = canon(d)
    if case.get("touch", len(case["ops"]) % 3 == 0):
        from ..touch import readonly_touch
        readonly_touch(d, len(case["ops"]), foreign_lookups=False)     # reads must not leak into what is written
        ctx.count("touched_before_writing")
    try:
        text, d2 = roundtrip(d, opts)
    except Exception as e:  # writing / reading back an expressible document must not fail
        return [exc_item(e, "roundtrip")]
    return diff_canon(before, canon(d2))
