"""C18 - identifier lookup and typed listing always agree with the record list (stateful)."""
import sys

from hypothesis import strategies as st
from hypothesis.stateful import rule

from .. import spec, stateful

ID = "C18"
LEVEL = "exploration"
RULE = ("Hypothesis RuleBasedStateMachine over a document with bundles and a second document. Records arrive through "
        "every record-adding path: typed factories, new_record, add_record (of a record living elsewhere), update (both "
        "directions, documents and bundles), add_bundle, bundle(), constructor records=, PROV-JSON and PROV-XML "
        "deserialisation, unified(), flattened() (derived containers replace the originals so later steps act on them). "
        "Identifier pool of 4 URIs reachable through two prefixes and a default namespace. After every step, for every "
        "container, every pool identifier (present or absent) and every accepted spelling (QualifiedName under a foreign "
        "prefix object, 'prefix:local', bare local, full URI): list(get_record(x)) must be, by object identity and order, "
        "the scan of get_records(); get_records(cls) for the 18 classes, ProvElement, ProvRelation, ProvRecord and a "
        "tuple must equal the isinstance filter; mutating the lists returned by records / get_records() must not change "
        "the container. Non-trivial = history with >= 2 different insertion paths and an identifier carried by >= 2 "
        "records of one container; distinct by SHA-1 of the history.")
ASSUMPTIONS = [
    "string spellings are used only where the container's own namespaces / default namespace (public API) bind them to the intended URI",
    "get_record(None) is not part of the claim",
]
REQUIRED_CLASSES = {"all": ["path:factory", "path:new_record", "path:add_record", "path:update", "path:add_bundle", "path:ctor",
                            "path:json", "path:xml", "path:unified", "path:flattened", "lookup:qn", "lookup:str", "lookup:bare",
                            "lookup:uri", "lookup:absent", "lookup:multi", "call:unified", "call:graph"]}
SHRINK_CAP = {"quick": 400, "thorough": 2000}

NS_A, NS_D = "http://a/", "http://d.org/"
POOL = [(NS_A, "i1"), (NS_A, "i2"), (NS_D, "i1"), (NS_D, "i3"), (NS_A, "r/2021/s"), (NS_D, "attr#1")]
KINDS = ["entity", "agent", "activity", "generation", "usage", "derivation", "specialization", "mention", "membership", "alternate"]


class State:
    def __init__(self):
        from prov.model import ProvDocument
        self.main = ProvDocument()
        self.main.add_namespace("ex", NS_A)
        self.main.set_default_namespace(NS_D)
        self.other = ProvDocument()
        self.other.add_namespace("p", NS_A)     # NS_D is never given a prefix: it is only ever a default namespace
        self.paths = set()
        self.multi = False


def new_state():
    return State()


def history_nontrivial(s, ctx):
    return len(s.paths) >= 2 and s.multi


def _it(b, **kw):
    d = {"b": b}
    d.update(kw)
    return d


def _containers(s):
    out = []
    for d in (s.main, s.other):
        out.append(d)
        out.extend(d.bundles)
    return out


def _classes():
    from prov import model as m
    cl = [m.PROV_REC_CLS[k] for k in m.PROV_REC_CLS]
    return cl + [m.ProvElement, m.ProvRelation, m.ProvRecord, (m.ProvEntity, m.ProvGeneration), (m.ProvAgent,)]


def _spellings(c, ns, local, ctx):
    from prov.identifier import Namespace, QualifiedName
    out = []
    registered = None
    for n in c.namespaces:
        if n.uri == ns:
            registered = n.prefix
            break
    d = c.get_default_namespace()
    is_default = d is not None and d.uri == ns
    if is_default:
        out.append(("bare", local))
    if any((ns + local).startswith(n.uri) for n in c.namespaces) or (d is not None and (ns + local).startswith(d.uri)):
        out.append(("uri", ns + local))
    if registered is not None:
        out.append(("str", "%s:%s" % (registered, local)))
    # a QualifiedName on the caller's own Namespace object.  Resolving it registers its prefix in the container, which
    # would give a namespace that is ONLY the default a prefix and so change what the other spellings exercise:
    # for such a namespace the object carries the empty prefix (= the same default), otherwise a foreign prefix
    if is_default and registered is None:
        out.append(("qn", QualifiedName(Namespace("", ns), local)))
    else:
        out.append(("qn", QualifiedName(Namespace("zq", ns), local)))
    return out


def scan(c, items, ctx, s=None):
    # lookups under spellings that are NOT bound right now (no claim on their result): a later binding - a default
    # namespace adopted through update(), a namespace registered on the parent - must still be honoured afterwards
    for ns, local in POOL[:2]:
        for x in (local, "zz9:" + local, "dd:" + local):
            try:
                c.get_record(x)
            except Exception:  # noqa - e.g. invalid name: no claim
                pass
    recs = c.get_records()
    # records / get_records() are independent copies
    for getter in ("records", "get_records"):
        lst = c.records if getter == "records" else c.get_records()
        n = len(lst)
        lst.append(None)
        lst.reverse()
        again = c.records if getter == "records" else c.get_records()
        if len(again) != n or any(a is not b for a, b in zip(again, recs)):
            items.append(_it("%s_not_a_copy" % getter))
            return
    for ns, local in POOL:
        uri = ns + local
        want = [r for r in recs if r.identifier is not None and r.identifier.uri == uri]
        if len(want) >= 2 and s is not None:
            s.multi = True
            ctx.count("lookup:multi")
        if not want:
            ctx.count("lookup:absent")
        for kind, x in _spellings(c, ns, local, ctx):
            got = c.get_record(x)
            got = [] if got is None else list(got)
            ctx.count("lookup:" + kind)
            if len(got) != len(want) or any(a is not b for a, b in zip(got, want)):
                items.append(_it("get_record_mismatch:%s" % kind, uri=uri, spelling=str(x), got=[str(r)[:60] for r in got],
                                 want=[str(r)[:60] for r in want], container=str(c.identifier) if c.is_bundle() else "document"))
                return
    recs = c.get_records()
    for cls in _classes():
        got = list(c.get_records(cls))
        want = [r for r in recs if isinstance(r, cls)]
        if len(got) != len(want) or any(a is not b for a, b in zip(got, want)):
            items.append(_it("get_records_filter_mismatch", cls=str(cls)))
            return


def _qn(prefix, ns, local):
    from prov.identifier import Namespace, QualifiedName
    return QualifiedName(Namespace(prefix, ns), local)


def apply(s, op, ctx):
    from prov.model import ProvDocument, ProvBundle, ProvException, PROV_REC_CLS
    from prov.identifier import Namespace
    items = []
    code = op[0]
    if code == "rec":
        cs = _containers(s)
        c = cs[op[1] % len(cs)]
        kind = KINDS[op[2] % len(KINDS)]
        ns, local = POOL[op[3] % len(POOL)]
        ident = _qn(["ex", "p", "zz", ""][op[4] % 4] if ns != NS_D else "", ns, local)
        pname, tname, is_el, fargs, mand, fac, fac_id = spec.KINDS[kind]
        ref = _qn("ex", NS_A, "i1")
        if op[5] % 2 == 0:
            if is_el:
                getattr(c, fac)(ident)
            else:
                kw = {a: ref for a, t in fargs[:mand]}
                if fac_id:
                    getattr(c, fac)(identifier=ident if op[5] % 4 == 0 else None, **kw)
                else:
                    getattr(c, fac)(**kw)
            s.paths.add("factory")
            ctx.count("path:factory")
        else:
            PROV = Namespace("prov", spec.PROV_NS)
            c.new_record(PROV[tname], ident, [(PROV[a], ref) for a, t in fargs[:mand]])
            s.paths.add("new_record")
            ctx.count("path:new_record")
    elif code == "add_record":
        cs = _containers(s)
        c = cs[op[1] % len(cs)]
        allr = [r for x in cs for r in x.get_records()]
        if not allr:
            return []
        c.add_record(allr[op[2] % len(allr)])
        s.paths.add("add_record")
        ctx.count("path:add_record")
    elif code == "update":
        a, b = (s.main, s.other) if op[1] % 2 == 0 else (s.other, s.main)
        if op[2] % 3 == 0 and list(b.bundles):
            bl = list(b.bundles)
            src = bl[op[2] % len(bl)]
            tgt = list(a.bundles)
            if tgt and op[2] % 2:
                tgt[0].update(src)
            else:
                a.update(src)
        else:
            a.update(b)
        s.paths.add("update")
        ctx.count("path:update")
    elif code == "bundle":
        d = s.main if op[1] % 2 == 0 else s.other
        ns, local = POOL[op[2] % len(POOL)]
        try:
            d.bundle(_qn("ex", ns, "b" + local))
        except ProvException:
            ctx.count("bundle:duplicate")
    elif code == "add_bundle":
        a, b = (s.main, s.other) if op[1] % 2 == 0 else (s.other, s.main)
        if b.has_bundles():
            b = b.flattened()
        ns, local = POOL[op[2] % len(POOL)]
        try:
            a.add_bundle(b, _qn("ex", ns, "ab" + local))
            s.paths.add("add_bundle")
            ctx.count("path:add_bundle")
        except ProvException:
            ctx.count("add_bundle:duplicate")
    elif code == "call":
        # operations documented as read-only / deriving, called WITHOUT adopting their result: the source's index and
        # order must be what they were
        from prov.graph import prov_to_graph
        src = s.main if op[2] % 2 == 0 else s.other
        how = op[1]
        try:
            if how == "unified":
                src.unified()
                for b in src.bundles:
                    b.unified()
            elif how == "flattened":
                src.flattened()
            elif how == "graph":
                prov_to_graph(src)
            elif how == "provn":
                src.get_provn()
            elif how == "json":
                src.serialize(format="json")
        except ProvException:
            ctx.count("call:refused")
        ctx.count("call:" + how)
        s.paths.add("call")
    elif code == "derive":
        how = op[1]
        which = op[2] % 2
        src = s.main if which == 0 else s.other
        if how == "unified":
            try:
                new = src.unified()
            except ProvException:
                ctx.count("unified:conflict")
                return []
        elif how == "flattened":
            new = src.flattened()
        elif how == "ctor":
            new = ProvDocument(records=src.get_records())
            for b in src.bundles:
                nb = ProvBundle(records=b.get_records(), identifier=b.identifier)
                new.add_bundle(nb)
        elif how == "json":
            new = ProvDocument.deserialize(content=src.serialize(format="json"), format="json")
        elif how == "xml":
            new = ProvDocument.deserialize(content=src.serialize(format="xml"), format="xml")
        else:
            raise ValueError(how)
        s.paths.add(how)
        ctx.count("path:" + how)
        if which == 0:
            s.main = new
        else:
            s.other = new
    else:
        raise ValueError(code)
    for c in _containers(s):
        scan(c, items, ctx, s)
        if items:
            break
    return items


def make_machine(Base):
    class IndexCoherence(Base):
        @rule(scope=st.integers(0, 5), kind=st.integers(0, 9), ident=st.integers(0, 5), prefix=st.integers(0, 3), via=st.integers(0, 3))
        def add_new_record(self, scope, kind, ident, prefix, via):
            self.do(["rec", scope, kind, ident, prefix, via])

        @rule(scope=st.integers(0, 5), src=st.integers(0, 40))
        def add_existing_record(self, scope, src):
            self.do(["add_record", scope, src])

        @rule(direction=st.integers(0, 1), what=st.integers(0, 5))
        def update(self, direction, what):
            self.do(["update", direction, what])

        @rule(doc=st.integers(0, 1), ident=st.integers(0, 5))
        def bundle(self, doc, ident):
            self.do(["bundle", doc, ident])

        @rule(direction=st.integers(0, 1), ident=st.integers(0, 5))
        def add_bundle(self, direction, ident):
            self.do(["add_bundle", direction, ident])

        @rule(how=st.sampled_from(["unified", "flattened", "ctor", "json", "xml"]), which=st.integers(0, 1))
        def derive(self, how, which):
            self.do(["derive", how, which])

        @rule(how=st.sampled_from(["unified", "unified", "flattened", "graph", "provn", "json"]), which=st.integers(0, 1))
        def call_and_discard(self, how, which):
            self.do(["call", how, which])

    return IndexCoherence


def budget(tier):
    return {"shards": 8, "machines": 900, "steps": 25} if tier == "quick" else {"shards": 16, "machines": 1500, "steps": 30}


def run_stateful(tier, seed, ctx, findings, reported, failures):
    b = budget(tier)
    stateful.run_machine(sys.modules[__name__], make_machine, b["machines"], b["steps"], seed, ctx, findings, reported, failures)


def check(case, ctx):
    return stateful.check_history(sys.modules[__name__], case, ctx)
