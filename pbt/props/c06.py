"""C06 - PROV-N output is well-formed and denotes the same document (independent PROV-N reader)."""
from hypothesis import strategies as st

from .. import gen
from .. import matrix as mx
from ..build import build
from ..canon import canon, diff_canon
from ..readers import provn as rd
from .c01 import classify

ID = "C06"
LEVEL = "exploration"
RULE = ("Document recipes of the 'provn' profile (local parts from letters, digits, '_', '-', '.', '/' obeying PN_LOCAL; "
        "all record kinds, argument masks, anonymous and identified relations, bundles with own declarations, every value "
        "kind, single- and multi-line strings with quotes, backslashes, CR, triple quotes) plus the exhaustively "
        "enumerated core (kind x optional mask x identified x attribute; value kind x attribute slot x record class). "
        "Oracle: get_provn() must parse under an independent recursive-descent PROV-N parser written from the W3C grammar "
        "(own tables of expression names and argument positions) and the parsed content must equal the strict canonical "
        "content of the document as multisets (identifiers, formal arguments by position with '-' exactly where absent, "
        "attributes with datatypes / language tags, strings and numbers exactly, names resolved through the printed "
        "declarations); serialize(format='provn') must return the same text. Non-trivial = a relation with an absent "
        "optional argument or an attribute list, or a bundle; distinct by SHA-1 of the recipe.")
ASSUMPTIONS = [
    "the independent reader is this project's reading of the PROV-N Recommendation (pbt/readers/provn.py); it shares no code or table with prov",
    "documents whose bundle identifier resolves differently in bundle and document declarations are counted and not judged (the Recommendation is unclear on that scope)",
    "value-space mapping of DESIGN appendix D: xsd:int/long/double/boolean/string/dateTime/anyURI and prov:QUALIFIED_NAME are compared as values, any other datatype as (lexical, datatype)",
]
REQUIRED_CLASSES = {"all": ["has:bundle", "has:default_ns", "has:anon_relation", "value:float", "value:lang", "value:lit",
                            "value:dt", "string:multiline", "string:backslash", "string:quote", "touched_before_printing", "printed_then_modified_then_printed"]}


def budget(tier):
    return {"shards": 8, "examples": 500} if tier == "quick" else {"shards": 16, "examples": 6000}


def strategy(tier):
    from . import c05
    follow = st.one_of(st.just([]), st.just([]), st.lists(c05.follow_up_op(), min_size=1, max_size=3))
    return st.builds(lambda r, f: dict(r, follow=f), gen.recipe("provn"), follow)


def matrix(tier):
    for c in mx.relation_cells("provn"):
        yield c
    for c in mx.value_cells("provn"):
        yield c
    nasty = ["back\\slash", "a\rb", "a\nb", 'q"uote', 'tri"""ple', "end\\", '"', "\\n", "a\r\nb\\", "tab\there", "'", '""', "x\\\"y\n"]
    for s in nasty:
        for slot in ("label", "user"):
            nm = mx._n("k", "str") if slot == "user" else gen.prov_name(slot, "str")
            yield {"profile": "provn", "ops": [["ns", 0, "ex", mx.EX], ["rec", 0, "entity", mx._n("e", "str"), {},
                                                [[nm, {"k": "str", "v": s}], [mx._n("k2", "str"), {"k": "lang", "v": s, "lang": "en"}],
                                                 [mx._n("k3", "str"), {"k": "lit", "v": s, "dt": mx._n("T", prefix="ty", ns="http://types.example/t#")}]], "factory"]],
                   "cell": ["string", s, slot]}


def check(case, ctx):
    from ..runner import exc_item
    b = build(case)
    d = b.doc
    nt = classify(b, ctx, case)
    for ms in b.model:
        for m in ms:
            for _, v in m["attrs"]:
                if v[0] in ("str", "lit") and isinstance(v[1], str):
                    if "\n" in v[1]:
                        ctx.count("string:multiline")
                    if "\\" in v[1]:
                        ctx.count("string:backslash")
                    if '"' in v[1]:
                        ctx.count("string:quote")
    has_rel_opt = any(not m["type"].endswith(("#Entity", "#Agent", "#Activity")) for ms in b.model for m in ms)
    ctx.nontrivial(has_rel_opt or len(b.scopes) > 1 or nt)
    if case.get("follow"):
        # the document is printed once, then modified through the public mutators, then printed again: the text
        # must describe the document as it is now
        from . import c05
        from ..build import apply_op
        try:
            d.get_provn()
        except Exception as e:
            return [exc_item(e, "get_provn")]
        dummy = []
        for op in case["follow"]:
            if op[0] in ("readd", "set_time", "asserted_type"):
                c05._c05_op(b, op, dummy, ctx)
            else:
                apply_op(b, op)
        ctx.count("printed_then_modified_then_printed")
    want = b.expected() if case.get("follow") else canon(d)
    if len(case["ops"]) % 2:
        from ..touch import readonly_touch
        readonly_touch(d, len(case["ops"]))
        ctx.count("touched_before_printing")
    try:
        text = d.get_provn()
    except Exception as e:
        return [exc_item(e, "get_provn")]
    items = []
    try:
        t2 = d.serialize(format="provn")
        if t2 != text:
            items.append({"b": "serialize_provn_differs_from_get_provn"})
    except Exception as e:
        return [exc_item(e, "serialize")]
    try:
        got, info = rd.parse(text)
    except rd.ProvNSyntaxError as e:
        return [{"b": "not_well_formed:" + str(e).split(" at line")[0][:40], "msg": str(e)[:200]}]
    if info["ambiguous_bundle_ids"]:
        ctx.count("excluded_ambiguous_bundle_id")
        return items
    items.extend(diff_canon(want, got))
    return items
