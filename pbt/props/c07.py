"""C07 - PROV-O (RDF, TriG) round trip preserves the unified content of expressible documents."""
import itertools

from hypothesis import strategies as st

from .. import gen, spec
from ..build import build
from ..canon import canon, as_sets, diff_sets

ID = "C07"
LEVEL = "exploration"
RULE = ("Documents constructed INSIDE the statement's PROV-O-expressible subspace: three namespaces declared on the "
        "document under non-empty prefixes and used consistently, no default namespace, non-empty bundles, one kind per "
        "identifier, every relation with its first two arguments, no mention, no PROV class name as prov:type of a "
        "relation, anonymous attribution/communication/delegation/influence/specialization/alternate/membership bare, "
        "no subject with an identified and an anonymous relation of one kind, values in {str, int, bool, datetime, URI, "
        "qualified name, language-tagged string}; default rdf_format (TriG) only. Exhaustive core: relation kind x "
        "optional-argument mask x identified x attribute class, element kind x value kind x attribute slot. Oracle: "
        "serialise + deserialise raise nothing; per container the SET of canonical records equals that of unified(); "
        "bundle identifier URIs equal. Non-trivial = a qualified (identified or attributed) relation together with an "
        "unqualified one, or a bundle; distinct by SHA-1 of the recipe.")
ASSUMPTIONS = [
    "unified() is the library's own (its correctness is C08's subject)",
    "constraints of the quantifier are enforced by construction (a post-pass drops records that would violate them, counted)",
    "rdflib is trusted for TriG syntax; only the default rdf_format is exercised",
    "an identified alternateOf is not generated: the writer has no form for it at all (it deliberately skips the qualified form for prov:Alternate and writes the plain triple only without identifier), so it is not PROV-O-expressible; identified specialization / membership ARE generated (the library writes prov:qualifiedSpecialization / prov:qualifiedMembership)",
]
REQUIRED_CLASSES = {"all": ["rel:identified", "rel:anon_qualified", "rel:anon_plain", "has:bundle", "value:lang", "value:dt",
                            "value:qn", "value:uri", "value:bool", "merged_identifier", "with_default_namespace_equal_to_declared", "serializer_object_reused_after_modification"]}

NSS = [("ex", "http://example.org/ns/"), ("foo", "http://foo.example/x#"), ("urn", "urn:test:")]
SIMPLE_ANON = {"attribution", "communication", "delegation", "influence", "specialization", "alternate", "membership"}
NO_QUALIFIED_FORM = {"alternate"}      # the writer has no form at all for an identified alternateOf; identified specialization / membership use the library's own prov:qualifiedSpecialization / prov:qualifiedMembership
REL_KINDS = [k for k in spec.RELATION_KINDS if k != "mention"]
LOCALS = ["e1", "e2", "a1", "a2", "ag1", "x", "y_2", "Z", "a/1"]
PROV_CLASS_LOCALS = {spec.KINDS[k][1] for k in spec.KINDS} | set(spec.SUBTYPE_TYPE_TO_BASE) | {"Bundle", "Collection"}


def budget(tier):
    return {"shards": 8, "examples": 700} if tier == "quick" else {"shards": 16, "examples": 2500}


def _name(draw, locals_=LOCALS):
    p, u = draw(st.sampled_from(NSS))
    return {"ns": u, "local": draw(st.sampled_from(locals_)), "prefix": p, "as": draw(st.sampled_from(["qn", "str"]))}


def _value():
    return gen.value("rdf", ["str", "int", "bool", "dt", "uri", "qn", "lang"]).map(_fix_qn)


def _fix_qn(v):
    if v["k"] == "qn":
        p, u = NSS[len(v["local"]) % 3]
        return dict(v, ns=u, prefix=p)
    return v


@st.composite
def _attrs(draw, max_size=3, for_relation=False):
    out = []
    for _ in range(draw(st.integers(0, max_size))):
        slot = draw(st.sampled_from(["user", "user", "type", "label", "value", "location", "role"]))
        if slot == "user":
            p, u = draw(st.sampled_from(NSS))
            nm = {"ns": u, "local": draw(st.sampled_from(["k", "k2", "attr"])), "prefix": p, "as": "qn"}
            val = draw(_value())
        else:
            nm = gen.prov_name(slot, draw(st.sampled_from(["qn", "str"])))
            if slot == "label":
                val = draw(gen.label_value("rdf"))
            elif slot == "type":
                val = draw(st.one_of(_value().filter(lambda v: v["k"] in ("qn", "str", "int")),
                                     st.sampled_from([{"k": "qn", "ns": NSS[0][1], "local": "MyType", "prefix": "ex"}])))
            else:
                val = draw(_value())
        out.append([nm, val])
    return gen.normalise_attrs(out)[0]


@st.composite
def _recipe(draw):
    ops = [["ns", 0, p, u] for p, u in NSS]
    nb = draw(st.sampled_from([0, 0, 1, 2]))
    for i in range(nb):
        ops.append(["bundle", {"ns": NSS[i % 3][1], "local": "bundle%d" % i, "prefix": NSS[i % 3][0], "as": "qn"}, "bundle"])
    n = draw(st.integers(1, 9))
    for _ in range(n):
        scope = draw(st.integers(0, nb))
        if draw(st.integers(0, 2)) == 0:
            kind = draw(st.sampled_from(spec.ELEMENT_KINDS))
            formal = {}
            if kind == "activity":
                for a in ("startTime", "endTime"):
                    if draw(st.booleans()):
                        formal[a] = {"t": draw(gen.datetime_iso("rdf")), "as": "dt"}
            ops.append(["rec", scope, kind, _name(draw), formal, draw(_attrs()), "factory"])
        else:
            kind = draw(st.sampled_from(REL_KINDS))
            pname, tname, is_el, fargs, mand, fac, fac_id = spec.KINDS[kind]
            identified = draw(st.booleans())
            formal = {}
            for i, (arg, typ) in enumerate(fargs):
                if i < 2 or draw(st.booleans()):
                    formal[arg] = {"name": _name(draw)} if typ == "ref" else {"t": draw(gen.datetime_iso("rdf")), "as": "dt"}
            attrs = draw(_attrs(for_relation=True))
            ident = _name(draw, ["r1", "r2", "r3", "g1"]) if identified else None
            ops.append(["rec", scope, kind, ident, formal, attrs, "factory" if (fac_id or not identified) else "new_record"])
    # several relations of one kind on the SAME subject (different objects / roles / plans)
    for sel, in draw(st.lists(st.tuples(st.integers(0, 30)), max_size=2)):
        rels = [o for o in ops if o[0] == "rec" and o[2] in REL_KINDS]
        if not rels:
            break
        o = rels[sel % len(rels)]
        fargs = spec.formal_args(o[2])
        formal = dict(o[4])
        formal[fargs[1][0]] = {"name": _name(draw)}
        for a, t in fargs[2:]:
            if draw(st.booleans()):
                formal[a] = {"name": _name(draw)} if t == "ref" else {"t": draw(gen.datetime_iso("rdf")), "as": "dt"}
            else:
                formal.pop(a, None)
        ident = None if o[3] is None else _name(draw, ["r4", "r5"])
        ops.append(["rec", o[1], o[2], ident, formal, draw(_attrs(for_relation=True)), o[6]])
    extras = {"default_ns": draw(st.sampled_from([None, None, 0, 1])), "reuse_serializer": draw(st.integers(0, 3)) == 0}
    return {"profile": "rdf", "ops": ops, "extras": extras}


def strategy(tier):
    return _recipe()


def matrix(tier):
    nm = lambda l: {"ns": NSS[0][1], "local": l, "prefix": "ex", "as": "qn"}
    head = [["ns", 0, p, u] for p, u in NSS]
    attr_classes = {
        "none": [], "user": [[{"ns": NSS[1][1], "local": "k", "prefix": "foo", "as": "qn"}, {"k": "str", "v": "v"}]],
        "role": [[gen.prov_name("role"), {"k": "qn", "ns": NSS[0][1], "local": "therole", "prefix": "ex"}]],
        "type": [[gen.prov_name("type"), {"k": "qn", "ns": NSS[0][1], "local": "MyType", "prefix": "ex"}]],
        "label+loc": [[gen.prov_name("label"), {"k": "str", "v": "a label"}], [gen.prov_name("location"), {"k": "str", "v": "somewhere"}]],
    }
    for kind in REL_KINDS:
        pname, tname, is_el, fargs, mand, fac, fac_id = spec.KINDS[kind]
        opt = fargs[2:]
        for mask in itertools.product([False, True], repeat=len(opt)):
            for identified in (False, True):
                for ac, attrs in attr_classes.items():
                    formal = {}
                    for i, (arg, typ) in enumerate(fargs):
                        if i < 2 or mask[i - 2]:
                            formal[arg] = {"name": nm("arg%d" % i)} if typ == "ref" else {"t": "2012-03-02T10:30:0%d" % i, "as": "dt"}
                    ops = head + [["rec", 0, kind, nm("r1") if identified else None, formal, attrs,
                                   "factory" if (fac_id or not identified) else "new_record"]]
                    yield {"profile": "rdf", "ops": ops, "cell": ["rel", kind, list(mask), identified, ac]}
    for kind in spec.ELEMENT_KINDS:
        for vk, vals in __import__("pbt.matrix", fromlist=["x"]).REPRESENTATIVE_VALUES.items():
            if vk not in ("str", "int", "bool", "dt", "uri", "qn", "lang"):
                continue
            for val in vals:
                if vk == "qn":
                    val = dict(val, ns=NSS[1][1], prefix="foo")
                for slot in ("type", "label", "value", "location", "role", "user"):
                    if slot == "label" and vk not in ("str", "lang"):
                        continue
                    a = gen.prov_name(slot) if slot != "user" else {"ns": NSS[2][1], "local": "k", "prefix": NSS[2][0], "as": "qn"}
                    yield {"profile": "rdf", "ops": head + [["rec", 0, kind, nm("el"), {}, [[a, val]], "factory"]],
                           "cell": ["el", kind, vk, slot]}


def sanitise(case, ctx):
    """post-pass enforcing the quantifier's clauses by construction; returns the recipe actually used"""
    ops = []
    kind_of = {}        # identifier uri -> kind
    rel_forms = {}      # (scope, subject uri, kind) -> 'identified' | 'anon'
    assoc_forms = {}    # (scope, activity uri) -> 'plain' | 'qualified' (anonymous associations)
    attrs_of = {}       # (scope, id uri) -> attributes of all records with that identifier so far
    formal_of = {}      # (scope, id uri) -> formal dict of the first record with that id (same formal for merges)
    nb = sum(1 for o in case["ops"] if o[0] == "bundle")
    used_scopes = set()
    for o in case["ops"]:
        if o[0] != "rec":
            ops.append(o)
            continue
        _, scope, kind, ident, formal, attrs, via = o
        scope = scope % (nb + 1)
        is_el = spec.KINDS[kind][2]
        fargs = spec.formal_args(kind)
        attrs = [a for a in attrs if not (a[0]["ns"] == spec.PROV_NS and a[0]["local"] == "type" and not is_el and
                                          a[1]["k"] == "qn" and a[1]["ns"] == spec.PROV_NS)]
        attrs = [a for a in attrs if not (a[0]["ns"] == spec.PROV_NS and a[0]["local"] == "type" and a[1]["k"] == "qn" and
                                          a[1]["ns"] == spec.PROV_NS and a[1]["local"] in PROV_CLASS_LOCALS)]
        if ident is not None and kind in NO_QUALIFIED_FORM:
            # PROV-O defines no qualification class for these relations: an identified one is not PROV-O-expressible
            ctx.count("adjusted:identifier_removed_no_qualified_form")
            ident = None
            via = "factory"
        if ident is not None:
            u = ident["ns"] + ident["local"]
            if kind_of.setdefault(u, kind) != kind:
                ctx.count("dropped:second_kind_for_identifier")
                continue
            key = (scope, u)
            if key in formal_of:
                formal = formal_of[key]      # same formal arguments: unified() must not refuse
                ctx.count("merged_identifier")
            else:
                formal_of[key] = formal
            # the merged record must not hold two ==-equal values of different kind under one attribute
            prev = attrs_of.setdefault(key, [])
            kept, _ = gen.normalise_attrs(prev + [list(a) for a in attrs])
            attrs = kept[len(prev):]
            attrs_of[key] = kept
        if not is_el:
            subj = formal[fargs[0][0]]["name"]
            sk = (scope, subj["ns"] + subj["local"], kind)
            form = "identified" if ident is not None else "anon"
            if rel_forms.setdefault(sk, form) != form:
                ctx.count("dropped:identified_and_anonymous_same_subject")
                continue
            if ident is None and kind in SIMPLE_ANON:
                attrs = []
                formal = {a: formal[a] for a, _ in fargs[:2]}
            if ident is None and kind == "association" and not case.get("no_exclude"):
                # known finding F-C07-1: plain + qualified anonymous association on one activity are conflated
                form2 = "qualified" if (len(formal) > 2 or attrs) else "plain"
                if assoc_forms.setdefault(sk[:2], form2) != form2:
                    ctx.count("excluded_by_finding:F-C07-1")
                    continue
            # endpoints must not be identifiers of relations (one kind per identifier)
            bad = False
            for a, t in fargs:
                if t == "ref" and a in formal:
                    ru = formal[a]["name"]["ns"] + formal[a]["name"]["local"]
                    if ru in kind_of and not spec.KINDS[kind_of[ru]][2] and a not in ("generation", "usage"):
                        bad = True
            if bad:
                ctx.count("dropped:endpoint_is_relation_identifier")
                continue
        used_scopes.add(scope)
        ops.append(["rec", scope, kind, ident, formal, attrs, via])
    # every bundle non-empty
    i = 0
    for o in list(ops):
        if o[0] == "bundle":
            i += 1
            if i not in used_scopes:
                ops.append(["rec", i, "entity", {"ns": NSS[0][1], "local": "filler%d" % i, "prefix": "ex", "as": "qn"}, {}, [], "factory"])
    return dict(case, ops=ops)


class _FakeUUID:
    def __init__(self, n):
        self.hex = "%032x" % n


def deterministic_bnodes():
    """rdflib names blank nodes with uuid4(); triple iteration order (which the reader's outcome can depend on) then
    differs from run to run. Blank node labels are arbitrary, so the harness pins them: same input -> same order."""
    import rdflib.term as T
    counter = itertools.count(1)
    T.uuid4 = lambda: _FakeUUID(next(counter))


def _assoc_conflation(case, item):
    """F-C07-1: a plain anonymous association is missing after the round trip and the same activity also carries an
    anonymous QUALIFIED association (plan / attributes): the reader attaches the plain triple to the qualified node."""
    if item.get("b") != "rec_missing:Association":
        return False
    rec = item.get("rec")
    if not rec or rec[1] is not None:
        return False
    attrs = dict((a, v) for a, v in rec[2])
    if set(attrs) != {spec.PROV_NS + "activity", spec.PROV_NS + "agent"}:
        return False
    subj = attrs[spec.PROV_NS + "activity"][1]
    for o in case["ops"]:
        if o[0] == "rec" and o[2] == "association" and o[3] is None:
            a = o[4].get("activity", {}).get("name")
            if a and a["ns"] + a["local"] == subj and (len(o[4]) > 2 or o[5]):
                return True
    return False


KNOWN_MATCHERS = {"plain_and_qualified_anonymous_association": _assoc_conflation}


def check(case, ctx):
    from prov.model import ProvDocument
    from ..runner import exc_item
    deterministic_bnodes()
    used = sanitise(case, ctx)
    b = build(used)
    d = b.doc
    extras = case.get("extras") or {}
    if extras.get("default_ns") is not None:
        # a default namespace equal to one that is ALSO declared under a prefix: every name still lives in a namespace
        # declared under a non-empty prefix on the document
        d.set_default_namespace(NSS[extras["default_ns"]][1])
        ctx.count("with_default_namespace_equal_to_declared")
    quals = plain = 0
    for si, rec, m in b.records:
        if spec.KINDS[m["kind"]][2]:
            continue
        extra = len([a for a in m["attrs"] if not a[0].startswith(spec.PROV_NS) or a[0].rsplit("#")[-1] in spec.PROV_ATTR_SLOTS])
        nformal = len(m["attrs"]) - extra
        if m["id"] is not None:
            ctx.count("rel:identified")
            quals += 1
        elif extra or nformal > 2:
            ctx.count("rel:anon_qualified")
            quals += 1
        else:
            ctx.count("rel:anon_plain")
            plain += 1
        ctx.count("kind:" + m["kind"])
    for ms in b.model:
        for m in ms:
            for _, v in m["attrs"]:
                ctx.count("value:" + (v[0] if v[0] != "lit" else "lang"))
    if len(b.scopes) > 1:
        ctx.count("has:bundle")
    ctx.nontrivial((quals and plain) or len(b.scopes) > 1)
    reused = None
    if extras.get("reuse_serializer"):
        # one serializer object used before AND after a modification of the document
        import io
        from prov import serializers
        from prov.identifier import Namespace, QualifiedName
        reused = serializers.get("rdf")(d)
        try:
            reused.serialize(io.BytesIO())
        except Exception as e:
            return [exc_item(e, "serialize")]
        d.entity(QualifiedName(Namespace(NSS[0][0], NSS[0][1]), "addedLater"), {QualifiedName(Namespace(NSS[0][0], NSS[0][1]), "k"): "late"})
        ctx.count("serializer_object_reused_after_modification")
    try:
        u = d.unified()
    except Exception as e:  # the construction keeps formal arguments equal: unified() must not refuse
        return [exc_item(e, "unified")]
    want = as_sets(canon(u))
    try:
        if reused is not None:
            buf = io.BytesIO()
            reused.serialize(buf)
            text = buf.getvalue().decode("utf-8")
        else:
            text = d.serialize(format="rdf")
    except Exception as e:
        return [exc_item(e, "serialize")]
    try:
        d2 = ProvDocument.deserialize(content=text, format="rdf")
    except Exception as e:
        return [exc_item(e, "deserialize")]
    got = as_sets(canon(d2))
    return diff_sets(want, got)
