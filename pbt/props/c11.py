"""C11 - reading foreign PROV-JSON / PROV-XML is stable under re-serialisation and neither drops nor invents content."""
import glob
import json
import os
import re
from collections import Counter

from hypothesis import strategies as st

from .. import gen, writers
from ..build import build, content_of, content_canon
from ..canon import canon, diff_canon
from ..readers import provjson as rj
from ..readers import provxml as rx
from ..xmlx import why_not_expressible
from .c04 import lval

ID = "C11"
LEVEL = "exploration"
RULE = ("Domain A (specification-driven): abstract content of a random recipe is rendered by this project's OWN PROV-JSON "
        "and PROV-XML writers in a randomly chosen dialect (values and formal arguments wrapped in arrays, several "
        "entities in one membership, arrays of record objects, every literal spelling incl. typed strings / typed numbers "
        "as strings / '1'-'0' booleans, prefix blocks on bundles, default namespaces, random key order; subtype XML "
        "elements, namespace declarations on root / bundleContent / record elements, comments, whitespace, empty "
        "elements). Domain B: one structured single-point mutation (key reorder, wrap / unwrap array, value kind change, "
        "consistent prefix rename, move a bundle's prefix declarations to the document; XML: comments and whitespace) of "
        "one of the 398 JSON / 45 XML corpus files, applied on the parsed structure. Oracle: loading raises a library "
        "error (accepted, counted) or yields d with (1) content equal to the generator's abstract content (A) / to the "
        "independent reader's content of the same text (B), and (2) load(write(d)) == d in the same format and across "
        "formats when d is XML-expressible. Non-trivial = the text uses at least one form the library's writer never "
        "emits; distinct by SHA-1 of the case.")
ASSUMPTIONS = [
    "own writers (pbt/writers.py) and independent readers (pbt/readers) are this project's reading of the specifications",
    "two documented normalisations: one membership per listed entity; natively supported typed literals compared as Python values",
    "values that are ==-equal but of different kind under one attribute (present in some corpus files) are compared by value only (set semantics, excluded by the statements)",
    "bundle identifiers whose two scope readings differ are not judged",
]
REQUIRED_CLASSES = {"all": ["A:json", "A:xml", "B:json", "B:xml", "feature:json:single_value_in_array", "feature:json:formal_in_array",
                            "feature:json:record_array", "feature:json:multi_entity_membership", "feature:json:membership_record_array", "feature:json:bundle_alias_shadows_doc_prefix", "feature:json:bundle_prefix_block",
                            "feature:json:typed_string", "feature:xml:subtype_element", "feature:xml:xsi_type_on_record_element", "refused:two_values_for_formal", "feature:xml:local_ns_declarations", "feature:xml:prefix_rebound_on_attribute_element", "feature:xml:prefix_declared_on_attribute_element",
                            "feature:xml:comments", "mut:reorder", "mut:wrap", "mut:kind", "mut:rename_prefix", "stability:same_format",
                            "stability:cross_format"]}

CORPUS = os.path.join(os.path.dirname(os.environ.get("PROV_SRC", "/repo/src").rstrip("/")), "src", "prov", "tests")
if not os.path.isdir(CORPUS):
    CORPUS = "/repo/src/prov/tests"
_FILES = {}


def corpus(fmt):
    if fmt not in _FILES:
        _FILES[fmt] = sorted(glob.glob(os.path.join(CORPUS, fmt, "*." + fmt)))
    return _FILES[fmt]


def budget(tier):
    return {"shards": 8, "examples": 900} if tier == "quick" else {"shards": 16, "examples": 5000}


def _with_extras(r, extras):
    """append records that give the dialect features something to bite on (several members of one collection;
    PROV subtypes on records of the matching base kind)"""
    ops = list(r["ops"])
    n = lambda l: {"ns": "http://a/", "local": l, "prefix": "ex", "as": "qn"}
    pt = lambda t: [gen.prov_name("type"), {"k": "qn", "ns": "http://www.w3.org/ns/prov#", "local": t, "prefix": "prov"}]
    for x in extras:
        if x == 0:
            for m in ("m1", "m2", "m3"):
                ops.append(["rec", 0, "membership", None, {"collection": {"name": n("coll")}, "entity": {"name": n(m)}}, [], "factory"])
        elif x == 1:
            ops.append(["rec", 0, "agent", n("ag9"), {}, [pt("Person"), [n("k"), {"k": "str", "v": "v"}]], "factory"])
        elif x == 2:
            ops.append(["rec", 0, "entity", n("c9"), {}, [pt("Collection")], "factory"])
        elif x == 3:
            ops.append(["rec", 0, "derivation", None, {"generatedEntity": {"name": n("e2")}, "usedEntity": {"name": n("e1")}}, [pt("Revision")], "factory"])
        elif x == 4:
            ops.append(["rec", 0, "membership", None, {"collection": {"name": n("coll2")}, "entity": {"name": n("m7")}}, [], "factory"])
            ops.append(["rec", 5, "membership", None, {"collection": {"name": n("coll")}, "entity": {"name": n("m4")}}, [], "factory"])
    return dict(r, ops=ops)


def strategy(tier):
    extras = st.lists(st.integers(0, 4), max_size=3)
    dial = st.lists(st.integers(0, 11), min_size=4, max_size=16)
    a_json = st.builds(lambda r, d: {"mode": "A", "fmt": "json", "recipe": r, "dial": d}, st.builds(_with_extras, gen.recipe("json", max_ops=10), extras), dial)
    a_xml = st.builds(lambda r, d: {"mode": "A", "fmt": "xml", "recipe": r, "dial": d}, st.builds(_with_extras, gen.recipe("xml", max_ops=10), extras), dial)
    b_json = st.builds(lambda i, m, s: {"mode": "B", "fmt": "json", "file": i, "mut": m, "sel": s}, st.integers(0, 397),
                       st.sampled_from(["none", "reorder", "wrap", "kind", "rename_prefix", "move_prefix"]),
                       st.lists(st.integers(0, 50), min_size=3, max_size=3))
    b_xml = st.builds(lambda i, m, s: {"mode": "B", "fmt": "xml", "file": i, "mut": m, "sel": s}, st.integers(0, 44),
                      st.sampled_from(["none", "comments", "whitespace"]), st.lists(st.integers(0, 50), min_size=3, max_size=3))
    return st.one_of(a_json, a_json, a_xml, a_xml, b_json, b_xml)


def matrix(tier):
    # every corpus file once, unmutated and with key reordering (the baseline of "accepted foreign dialect")
    for i in range(len(corpus("json"))):
        yield {"mode": "B", "fmt": "json", "file": i, "mut": "none" if i % 2 else "reorder", "sel": [i, 1, 2]}
    for i in range(len(corpus("xml"))):
        yield {"mode": "B", "fmt": "xml", "file": i, "mut": "none", "sel": [0, 0, 0]}


def _it(b, **kw):
    d = {"b": b}
    d.update(kw)
    return d


# ---------------------------------------------------------------------------- mutations (Domain B)
def _walk_records(doc):
    """yield (container dict, statement name, id, record object (dict))"""
    conts = [doc] + [b for b in doc.get("bundle", {}).values() if isinstance(b, dict)]
    for c in conts:
        for k, body in c.items():
            if k in ("prefix", "bundle") or not isinstance(body, dict):
                continue
            for ident, objs in body.items():
                for o in (objs if isinstance(objs, list) else [objs]):
                    if isinstance(o, dict):
                        yield c, k, ident, o


def mutate_json(text, mut, sel, ctx):
    doc = json.loads(text)
    if mut == "none":
        return text
    if mut == "reorder":
        def rev(x):
            if isinstance(x, dict):
                items = list(x.items())
                if sel[0] % 2:
                    items.reverse()
                else:
                    items = items[1:] + items[:1]
                return {k: rev(v) for k, v in items}
            return x
        return json.dumps(rev(doc), indent=sel[1] % 3)
    recs = list(_walk_records(doc))
    if mut in ("wrap", "kind"):
        slots = [(o, k) for _, _, _, o in recs for k in o]
        if not slots:
            return None
        o, k = slots[sel[0] % len(slots)]
        v = o[k]
        if mut == "wrap":
            if isinstance(v, list) and len(v) == 1:
                o[k] = v[0]
            elif not isinstance(v, list):
                o[k] = [v]
            else:
                return None
        else:
            if k.startswith("prov:") and k.split(":")[1] in {a for kd in rj.STATEMENTS.values() for a, _ in kd[1]}:
                return None
            target = v[sel[1] % len(v)] if isinstance(v, list) and v else v
            if isinstance(target, bool):
                new = {"$": "true" if target else "false", "type": "xsd:boolean"}
            elif isinstance(target, int):
                new = {"$": str(target), "type": "xsd:int"}
            elif isinstance(target, float):
                new = {"$": repr(target), "type": "xsd:double"}
            elif isinstance(target, str):
                new = {"$": target, "type": "xsd:string"}
            elif isinstance(target, dict) and target.get("type") == "xsd:string":
                new = target["$"]
            elif isinstance(target, dict) and target.get("type") == "xsd:int" and isinstance(target.get("$"), str) and re.match(r"^-?\d+$", target["$"]):
                new = {"$": int(target["$"]), "type": "xsd:int"}
            else:
                return None
            if isinstance(v, list) and v:
                v[sel[1] % len(v)] = new
            else:
                o[k] = new
        return json.dumps(doc, indent=1)
    if mut == "rename_prefix":
        pb = doc.get("prefix", {})
        names = [p for p in pb if p != "default"]
        if not names:
            return None
        old = names[sel[0] % len(names)]
        new = old + "Z9"
        if any(new in (b.get("prefix", {}) if isinstance(b, dict) else {}) for b in [doc] + list(doc.get("bundle", {}).values())):
            return None
        # a bundle re-declaring the prefix shadows it: leave such documents alone
        if any(isinstance(b, dict) and old in b.get("prefix", {}) for b in doc.get("bundle", {}).values()):
            return None

        def ren(s):
            return new + s[len(old):] if isinstance(s, str) and s.startswith(old + ":") else s

        def walk(x, in_prefix=False):
            if isinstance(x, dict):
                out = {}
                for k, v in x.items():
                    if k == "prefix" and isinstance(v, dict):
                        out[k] = {(new if p == old else p): u for p, u in v.items()}
                    elif k == "$" and x.get("type") not in ("prov:QUALIFIED_NAME", "xsd:QName"):
                        out[k] = v
                    else:
                        out[ren(k)] = walk(v)
                return out
            if isinstance(x, list):
                return [walk(y) for y in x]
            return ren(x)
        # only qualified-name positions are renamed: keys, formal values, "$" of qualified names, "type" values
        def walk2(x, key=None, is_formal=False):
            if isinstance(x, dict):
                out = {}
                qn_obj = x.get("type") in ("prov:QUALIFIED_NAME",)
                for k, v in x.items():
                    if k == "prefix" and isinstance(v, dict) and all(isinstance(u, str) for u in v.values()):
                        out[k] = {(new if p == old else p): u for p, u in v.items()}
                    elif k == "$":
                        out[k] = ren(v) if qn_obj else v
                    elif k == "type":
                        out[k] = ren(v)
                    elif k == "lang":
                        out[k] = v
                    else:
                        formal = k.startswith("prov:") and k.split(":", 1)[1] in FORMAL_REF
                        out[ren(k)] = walk2(v, k, formal)
                return out
            if isinstance(x, list):
                return [walk2(y, key, is_formal) for y in x]
            if is_formal:
                return ren(x)
            return x
        return json.dumps(walk2(doc), indent=1)
    if mut == "move_prefix":
        bl = doc.get("bundle", {})
        moved = False
        top = doc.setdefault("prefix", {})
        for b in bl.values():
            if isinstance(b, dict) and isinstance(b.get("prefix"), dict):
                for p, u in list(b["prefix"].items()):
                    if p != "default" and top.get(p, u) == u:
                        top[p] = u
                        del b["prefix"][p]
                        moved = True
                if not b["prefix"]:
                    del b["prefix"]
        return json.dumps(doc, indent=1) if moved else None
    raise ValueError(mut)


FORMAL_REF = {a for kd in rj.STATEMENTS.values() for a, t in kd[1] if t == "ref"}


def mutate_xml(text, mut, sel):
    if mut == "none":
        return text
    if mut == "comments":
        parts = re.split(r"(>\s*\n)", text)
        if len(parts) < 5:
            return None
        i = 2 * (1 + sel[0] % ((len(parts) - 1) // 2 - 1)) + 1
        parts.insert(i + 1, "<!-- inserted comment %d -->\n" % sel[1])
        return "".join(parts)
    if mut == "whitespace":
        return re.sub(r">\s*\n\s*<", ">\n\n      <" if sel[0] % 2 else "><", text)
    raise ValueError(mut)


# ---------------------------------------------------------------------------- comparison helpers
def _clash_keys(c):
    keys = set()
    for recs in [c[0]] + list(c[1].values()):
        for r in recs:
            seen = {}
            for a, v in r[2]:
                k = (r[0], r[1], a, lval(v))
                if k in seen and seen[k] != v:
                    keys.add(k)
                seen[k] = v
    return keys


def _collapse(c, keys):
    if not keys:
        return c

    def rec(r):
        out = set()
        for a, v in r[2]:
            k = (r[0], r[1], a, lval(v))
            out.add((a, ("by-value", repr(k[3]))) if k in keys else (a, v))
        return (r[0], r[1], tuple(sorted(out, key=repr)))

    def bag(b):
        o = Counter()
        for r, n in b.items():
            o[rec(r)] += n
        return o
    return (bag(c[0]), {u: bag(b) for u, b in c[1].items()})


def _load(text, fmt):
    from prov.model import ProvDocument
    return ProvDocument.deserialize(content=text, format=fmt)


def check(case, ctx):
    import prov
    from ..runner import exc_item
    fmt = case["fmt"]
    items = []
    expected = None
    if case["mode"] == "A":
        b = build(case["recipe"])
        if fmt == "xml" and why_not_expressible(b.doc):
            ctx.count("A:not_xml_expressible")
            return []
        content = content_of(b)
        if fmt == "xml" and any((not ns.isascii()) or " " in ns for ns in writers._namespaces(content)):
            ctx.count("A:namespace_uri_not_a_uri")     # lxml refuses IRIs as namespace names: outside the XML space
            return []
        expected = content_canon(content)
        text, feats = (writers.write_json if fmt == "json" else writers.write_xml)(content, case["dial"])
        for f in feats:
            ctx.count("feature:" + f)
        ctx.count("A:" + fmt)
        ctx.nontrivial(bool(feats) and bool(content["doc"] or content["bundles"]))
        must_refuse = "json:two_values_for_formal" in feats
        reader_info = {"ambiguous_bundle_ids": 0}
        if must_refuse:
            # a formal attribute with two different values: the only sound outcomes are a library error, or (for a reader
            # that keeps everything) both values; loading it while keeping one value silently drops the other
            try:
                d = _load(text, fmt)
            except prov.Error:
                ctx.count("refused:two_values_for_formal")
                return []
            except Exception as e:
                return [exc_item(e, "load:" + fmt)]
            return [_it("load:second_formal_value_silently_dropped")]
        # the own writer and the independent reader must agree (harness self-check, not a verdict on the library)
        try:
            got, reader_info = (rj.read(text, foreign=True) if fmt == "json" else rx.read(text))
            if not reader_info["ambiguous_bundle_ids"] and diff_canon(expected, got):
                raise AssertionError("own writer and independent reader disagree: %r" % diff_canon(expected, got)[:2])
        except (rj.ProvJSONStructureError, rx.ProvXMLStructureError) as e:
            raise AssertionError("own writer produced text the independent reader rejects: %s" % e)
        if reader_info["ambiguous_bundle_ids"]:
            ctx.count("excluded_ambiguous_bundle_id")
            return []
    elif case["mode"] == "T":
        text = case["text"]
        ctx.count("T:" + fmt)
        ctx.nontrivial(True)
        try:
            expected, info = (rj.read(text, foreign=True) if fmt == "json" else rx.read(text))
            if info["ambiguous_bundle_ids"]:
                expected = None
        except (rj.ProvJSONStructureError, rx.ProvXMLStructureError, ValueError):
            ctx.count("T:independent_reader_rejects")
            expected = None
    else:
        files = corpus(fmt)
        path = files[case["file"] % len(files)]
        with open(path, encoding="utf-8") as f:
            raw = f.read()
        try:
            text = mutate_json(raw, case["mut"], case["sel"], ctx) if fmt == "json" else mutate_xml(raw, case["mut"], case["sel"])
        except ValueError:
            raise
        if text is None:
            ctx.count("B:mutation_not_applicable:" + case["mut"])
            return []
        ctx.count("B:" + fmt)
        ctx.count("mut:" + case["mut"])
        ctx.nontrivial(True)
        try:
            expected, info = (rj.read(text, foreign=True) if fmt == "json" else rx.read(text))
            if info["ambiguous_bundle_ids"]:
                ctx.count("excluded_ambiguous_bundle_id")
                expected = None
        except (rj.ProvJSONStructureError, rx.ProvXMLStructureError, ValueError) as e:
            ctx.count("B:independent_reader_rejects")
            expected = None
    # ---- the library loads the text
    try:
        d = _load(text, fmt)
    except prov.Error as e:
        ctx.count("rejected:%s" % type(e).__name__)
        ctx.count("%s:rejected" % case["mode"])
        return []
    except Exception as e:
        return [exc_item(e, "load:" + fmt)]
    got = canon(d)
    if expected is not None:
        keys = _clash_keys(expected)
        if keys:
            ctx.count("compared_by_value:kind_clash_in_text")
        diff = diff_canon(_collapse(expected, keys), _collapse(got, keys))
        for it in diff[:4]:
            it["b"] = "load:" + it["b"]
            items.append(it)
        if items:
            return items
    # ---- stability under re-serialisation
    keys = _clash_keys(got)
    targets = [fmt]
    other = "xml" if fmt == "json" else "json"
    if other == "json" or not why_not_expressible(d):
        targets.append(other)
    for t in targets:
        try:
            d2 = _load(d.serialize(format=t), t)
        except Exception as e:
            items.append(exc_item(e, "rewrite:%s->%s" % (fmt, t)))
            continue
        ctx.count("stability:same_format" if t == fmt else "stability:cross_format")
        diff = diff_canon(_collapse(got, keys), _collapse(canon(d2), keys))
        for it in diff[:3]:
            it["b"] = "restore:%s->%s:%s" % (fmt, t, it["b"])
            items.append(it)
    return items


def evidence_extra(classes):
    a_total = classes.get("A:json", 0) + classes.get("A:xml", 0)
    return {"domain_A_texts": a_total, "domain_A_rejected_by_library": classes.get("A:rejected", 0),
            "domain_B_texts": classes.get("B:json", 0) + classes.get("B:xml", 0), "domain_B_rejected_by_library": classes.get("B:rejected", 0)}


def inconclusive(classes):
    """the statement lets the library refuse a text with a library error; a run in which it refuses a large share of
    the specification-driven texts (none on the pinned tree) decides nothing and must not count as a pass"""
    a_total = classes.get("A:json", 0) + classes.get("A:xml", 0)
    if a_total and classes.get("A:rejected", 0) > 0.2 * a_total:
        return "%d of %d specification-driven texts were refused with a library error" % (classes.get("A:rejected", 0), a_total)
    return None


def run_stateful(tier, seed, ctx, findings, reported, failures):
    """thorough tier only: the coverage-guided campaign (atheris / libFuzzer) over sequences of corpus mutations"""
    if tier != "thorough":
        return
    import subprocess
    import sys
    root = os.path.dirname(os.path.dirname(os.path.dirname(os.path.abspath(__file__))))
    probe = subprocess.run([sys.executable, "-c", "import sys; sys.path.insert(0, %r); import atheris" % os.path.join(root, ".deps")],
                           capture_output=True)
    if probe.returncode != 0:
        ctx.count("fuzz:skipped_atheris_not_installed")
        return
    out = os.path.join(ctx.workdir, "fuzz")
    runs = 12000
    p = subprocess.run([sys.executable, "-m", "pbt.fuzz_c11", out, str(seed), str(runs)], cwd=root, capture_output=True, text=True,
                       env=dict(os.environ, PYTHONPATH=root + os.pathsep + os.environ.get("PYTHONPATH", "")), timeout=3600)
    try:
        with open(os.path.join(out, "stats.json")) as f:
            st_ = json.load(f)
        ctx.count("fuzz:execs", st_["execs"])
        ctx.count("fuzz:distinct_texts", st_["distinct_texts"])
        ctx.evaluations += st_["applied"]
        for k, v in st_["classes"].items():
            ctx.count("fuzz:" + k, v)
    except (OSError, ValueError):
        ctx.count("fuzz:no_stats")
    for fn in sorted(os.listdir(out)) if os.path.isdir(out) else []:
        if fn.startswith("violation-"):
            with open(os.path.join(out, fn)) as f:
                v = json.load(f)
            if v["bucket"] not in reported:
                reported.add(v["bucket"])
                failures.append({"case": v["case"], "items": v["diff"], "bucket": v["bucket"]})
