"""C14 - graph conversion mirrors the (unified) document and converts back to it."""
from collections import Counter

from hypothesis import strategies as st

from .. import gen, spec
from ..build import build, content_of
from ..canon import crecord, canon, diff_bags, snapshot
from . import c08

ID = "C14"
LEVEL = "exploration"
RULE = ("Bundle-free document recipes from a small identifier pool (so that declared and undeclared endpoints, repeated "
        "identifiers, parallel relations between the same pair, self-loops and relations lacking the second endpoint all "
        "occur), all 15 relation kinds. Oracle computed from the abstract content with the reference unification of C08: "
        "expected nodes = element records of the unified content + one inferred node per distinct undeclared endpoint URI "
        "of a drawable relation (kind implied by the argument position, not part of any document); expected edges = one "
        "per relation with both first formal arguments, directed first -> second, carrying that relation; compared with "
        "g.nodes() / g.edges(data=True) as multisets of (identifier URI, canonical record); graph_to_prov(g) must equal "
        "(elements + drawable relations) of the unified content as a multiset; the source document is unchanged. "
        "Non-trivial = at least one drawable relation and one of {undeclared endpoint, parallel edge, self-loop, merged "
        "identifier, undrawable relation}; distinct by SHA-1 of the recipe.")
ASSUMPTIONS = [
    "influence relations with an undeclared endpoint are discarded (documented as skipped; outside the quantifier)",
    "documents whose unification must / may raise are discarded here (C08 decides them)",
    "an undeclared endpoint referenced from several argument positions may be inferred as any of the implied kinds",
]
REQUIRED_CLASSES = {"all": ["shape:undeclared_endpoint", "shape:parallel", "shape:self_loop", "shape:merged", "shape:undrawable",
                            "kind:mention", "kind:membership", "kind:derivation", "converted_then_edited"]}

ARG_KIND = {
    "entity": "Entity", "activity": "Activity", "agent": "Agent", "trigger": "Entity", "generatedEntity": "Entity",
    "usedEntity": "Entity", "delegate": "Agent", "responsible": "Agent", "specificEntity": "Entity", "generalEntity": "Entity",
    "alternate1": "Entity", "alternate2": "Entity", "collection": "Entity", "informed": "Activity", "informant": "Activity",
    "plan": "Entity", "ender": "Entity", "starter": "Entity",
}


def budget(tier):
    return {"shards": 8, "examples": 700} if tier == "quick" else {"shards": 16, "examples": 6000}


@st.composite
def _case(draw):
    r = draw(gen.recipe("graph", max_ops=12, bundles=False))
    # relations of ANOTHER kind re-using the identifier and the two endpoints of an earlier relation
    # (parallel edges between the same ordered pair that also share their identifier)
    extra = draw(st.lists(st.tuples(st.integers(0, 30), st.sampled_from(spec.RELATION_KINDS), st.booleans()), max_size=2))
    ops = list(r["ops"])
    for sel, kind2, same_id in extra:
        cands = [o for o in ops if o[0] == "rec" and o[2] in spec.RELATION_KINDS and len(o[4]) >= 2]
        if not cands:
            break
        o = cands[sel % len(cands)]
        f1 = spec.formal_args(o[2])
        if f1[1][1] != "ref" or f1[0][0] not in o[4] or f1[1][0] not in o[4]:
            continue
        f2 = spec.formal_args(kind2)
        formal = {f2[0][0]: o[4][f1[0][0]], f2[1][0]: o[4][f1[1][0]]}
        for a, t in f2[2:spec.mandatory(kind2)]:
            formal[a] = {"name": {"ns": "http://a/", "local": "e1", "prefix": "ex", "as": "qn"}}
        ident = o[3] if same_id else None
        via = "new_record" if (ident is not None and not spec.KINDS[kind2][6]) else "factory"
        ops.append(["rec", 0, kind2, ident, formal, [], via])
    return dict(r, ops=ops)


def strategy(tier):
    return _case()


def matrix(tier):
    """Exhaustive core: every relation kind x which of its two endpoints are DECLARED elements x identified / attributed."""
    n = lambda l: {"ns": "http://a/", "local": l, "prefix": "ex", "as": "qn"}
    elem = {"Entity": "entity", "Activity": "activity", "Agent": "agent"}
    for kind in spec.RELATION_KINDS:
        fargs = spec.formal_args(kind)
        if fargs[1][1] != "ref":
            continue
        k1 = elem.get(ARG_KIND.get(fargs[0][0], "Entity"), "entity")
        k2 = elem.get(ARG_KIND.get(fargs[1][0], "Entity"), "entity")
        for d1, d2 in ((True, True), (True, False), (False, True), (False, False)):
            if kind == "influence" and not (d1 and d2):
                continue        # documented as skipped
            for variant in ("plain", "identified", "attributed"):
                ops = [["ns", 0, "ex", "http://a/"]]
                if d1:
                    ops.append(["rec", 0, k1, n("x1"), {}, [], "factory"])
                if d2:
                    ops.append(["rec", 0, k2, n("x2"), {}, [], "factory"])
                formal = {fargs[0][0]: {"name": n("x1")}, fargs[1][0]: {"name": n("x2")}}
                for a, t in fargs[2:spec.mandatory(kind)]:
                    formal[a] = {"name": n("x3")}
                ident = n("r1") if variant == "identified" else None
                attrs = [[n("k"), {"k": "str", "v": "v"}]] if variant == "attributed" else []
                via = "new_record" if (ident is not None and not spec.KINDS[kind][6]) else "factory"
                ops.append(["rec", 0, kind, ident, formal, attrs, via])
                yield {"profile": "graph", "ops": ops, "cell": [kind, d1, d2, variant]}


def _it(b, **kw):
    d = {"b": b}
    d.update(kw)
    return d


def check(case, ctx):
    from prov.graph import prov_to_graph, graph_to_prov
    from prov.model import ProvException
    b = build(case)
    d = b.doc
    if len(case["ops"]) % 3 == 0 and b.records:
        # the document was converted before and one of its records has been completed since (no record added):
        # the conversion must show the document as it is now
        from prov.identifier import Namespace
        try:
            prov_to_graph(d)
        except ProvException:
            pass
        si, rec, m = b.records[len(case["ops"]) % len(b.records)]
        LATE = Namespace("late", "http://late.example/")
        rec.add_attributes([(LATE["added"], "after-first-conversion")])
        m["attrs"].append((LATE["added"].uri, ("str", "after-first-conversion")))
        fargs = spec.formal_args(m["kind"])
        if len(fargs) > 1 and fargs[1][1] == "ref" and not any(a == spec.PROV_NS + fargs[1][0] for a, _ in m["attrs"]):
            rec.add_attributes([(Namespace("prov", spec.PROV_NS)[fargs[1][0]], LATE["endpoint"])])
            m["attrs"].append((spec.PROV_NS + fargs[1][0], ("qn", LATE["endpoint"].uri)))
        ctx.count("converted_then_edited")
    content = content_of(b)
    must, may, expected, discard, stats = c08.reference(content)
    if discard or must or may:
        ctx.count("discarded:unification_undecided_here")
        return []
    top = expected[0]     # ordered canonical records of the unified document
    elements = [r for r in top if r[0].rsplit("#", 1)[1] in ("Entity", "Activity", "Agent")]
    relations = [r for r in top if r not in elements]
    declared = {r[1] for r in elements}
    type_to_kind = {spec.type_uri(k): k for k in spec.KINDS}
    exp_edges = Counter()
    inferred = {}   # uri -> set of allowed kinds
    drawable = []
    shapes = set()
    pairs = Counter()
    for r in relations:
        kind = type_to_kind[r[0]]
        fargs = spec.formal_args(kind)
        a1, a2 = spec.PROV_NS + fargs[0][0], spec.PROV_NS + fargs[1][0]
        vals = dict()
        for a, v in r[2]:
            vals.setdefault(a, v)
        v1, v2 = vals.get(a1), vals.get(a2)
        if fargs[1][1] != "ref" or v1 is None or v2 is None:
            shapes.add("undrawable")
            continue
        u1, u2 = v1[1], v2[1]
        if kind == "influence" and (u1 not in declared or u2 not in declared):
            ctx.count("discarded:influence_undeclared_endpoint")
            return []
        for u, arg in ((u1, fargs[0][0]), (u2, fargs[1][0])):
            if u not in declared:
                inferred.setdefault(u, set()).add(spec.PROV_NS + ARG_KIND[arg])
                shapes.add("undeclared_endpoint")
        exp_edges[(u1, u2, r)] += 1
        pairs[(u1, u2)] += 1
        if u1 == u2:
            shapes.add("self_loop")
        drawable.append(r)
        ctx.count("kind:" + kind)
    if any(n > 1 for n in pairs.values()):
        shapes.add("parallel")
    if stats["same_kind"]:
        shapes.add("merged")
    for s_ in shapes:
        ctx.count("shape:" + s_)
    ctx.nontrivial(bool(drawable) and bool(shapes))

    items = []
    before = snapshot(d)
    g = prov_to_graph(d)
    if snapshot(d) != before:
        items.append(_it("source_changed"))
    # nodes
    got_nodes = Counter()
    got_inferred = {}
    for n in g.nodes():
        if n.bundle is None:
            got_inferred.setdefault(n.identifier.uri, []).append(n.get_type().uri)
            if n.attributes:
                items.append(_it("inferred_node_has_attributes", uri=n.identifier.uri))
        else:
            got_nodes[crecord(n)] += 1
    items.extend(diff_bags(Counter(elements), got_nodes, "nodes"))
    for u, kinds in inferred.items():
        g_k = got_inferred.get(u, [])
        if len(g_k) != 1:
            items.append(_it("inferred_node_count", uri=u, got=len(g_k)))
        elif g_k[0] not in kinds:
            items.append(_it("inferred_node_kind", uri=u, got=g_k[0], allowed=sorted(kinds)))
    for u in got_inferred:
        if u not in inferred:
            items.append(_it("unexpected_inferred_node", uri=u))
    # edges
    got_edges = Counter()
    for s_, t_, data in g.edges(data=True):
        rel = data.get("relation")
        if rel is None:
            items.append(_it("edge_without_relation"))
            continue
        got_edges[(s_.identifier.uri, t_.identifier.uri, crecord(rel))] += 1
    if got_edges != exp_edges:
        miss = list((exp_edges - got_edges).elements())
        extra = list((got_edges - exp_edges).elements())
        rev = [e for e in miss if any(x[0] == e[1] and x[1] == e[0] and x[2] == e[2] for x in extra)]
        if rev and len(rev) == len(miss):
            items.append(_it("edge_direction_reversed", n=len(rev)))
        else:
            for e in miss[:3]:
                items.append(_it("edge_missing:" + e[2][0].rsplit("#", 1)[1], src=e[0], dst=e[1]))
            for e in extra[:3]:
                items.append(_it("edge_extra:" + e[2][0].rsplit("#", 1)[1], src=e[0], dst=e[1]))
    if items:
        return items
    # back conversion
    d2 = graph_to_prov(g)
    got = canon(d2)
    want = Counter(elements) + Counter(drawable)
    if got[1]:
        items.append(_it("back_conversion_has_bundles"))
    items.extend(diff_bags(want, got[0], "graph_to_prov"))
    if snapshot(d) != before:
        items.append(_it("source_changed"))
    return items
