"""C05 - records stay in normal form: formal attributes single-valued, typed, normalised."""
import datetime
import itertools

from hypothesis import strategies as st

from .. import gen, spec
from ..build import (Built, apply_op, mrec_canon, name_uri, spell, pyvalue, mval, _time_py, _time_model, CONVENIENCE)
from ..canon import crecord

ID = "C05"
LEVEL = "exploration"
RULE = ("Sequences of public calls on one document with a default namespace, two prefixes and a bundle: records of all "
        "18 kinds created through new_record / typed factory / PROV-N alias / element convenience method with every "
        "formal argument in every accepted representation (element object, QualifiedName under registered or foreign "
        "prefix, 'prefix:local', bare local, full URI; datetime naive/aware or ISO string), then add_attributes (dict / "
        "pair list), re-adding the same or a different formal value, set_time, add_asserted_type, Literal(v, native XSD "
        "type) versus the plain Python value. An enumerated core (kind x path x representation x time form) precedes "
        "the random phase. Oracle after every step and for every record: strict canonical content == reference model "
        "computed from the intents (so all entry paths agree), formal attributes single-valued with QualifiedName / "
        "datetime values, args/formal_attributes consistent; a different second formal value must raise ProvException "
        "and change nothing, the same value must be a silent no-op. Non-trivial = the sequence uses a non-object "
        "representation, a re-add, set_time, add_asserted_type or a native-typed Literal; distinct by SHA-1.")
ASSUMPTIONS = [
    "the model is the intents (URI / instant+offset / python value), independent of entry path",
    "set_time with a different time: either the new value replaces the old one (current behaviour) or the call is refused with ProvException and nothing changes - both are consistent with the statement",
    "not claimed (as the statement says): one membership call with several prov:entity values",
]
REQUIRED_CLASSES = {"all": ["via:convenience", "via:alias", "via:new_record", "via:factory", "op:readd_same", "op:readd_diff_refused", "op:double_refused", "op:double_at_creation_refused",
                            "op:set_time", "op:asserted_type", "value:tlit", "spell:str", "spell:bare", "ref:record-object",
                            "time:str"]}

SETUP = [
    ["default", 0, "http://d.org/"], ["ns", 0, "ex", "http://a/"], ["ns", 0, "p", "http://b/ns#"],
    ["rec", 0, "entity", {"ns": "http://a/", "local": "e1", "prefix": "ex", "as": "str"}, {}, [], "factory"],
    ["rec", 0, "activity", {"ns": "http://a/", "local": "a1", "prefix": "ex", "as": "str"}, {}, [], "factory"],
    ["rec", 0, "agent", {"ns": "http://d.org/", "local": "ag1", "prefix": "", "as": "bare"}, {}, [], "factory"],
    ["rec", 0, "entity", {"ns": "http://b/ns#", "local": "e2", "prefix": "p", "as": "qn"}, {}, [], "factory"],
    ["rec", 0, "activity", {"ns": "http://d.org/", "local": "a2", "prefix": "", "as": "bare"}, {}, [], "factory"],
    ["rec", 0, "agent", {"ns": "http://a/", "local": "ag2", "prefix": "zz", "as": "qn"}, {}, [], "factory"],
]
NSS = ["http://a/", "http://b/ns#", "http://d.org/"]


def budget(tier):
    return {"shards": 8, "examples": 1200} if tier == "quick" else {"shards": 16, "examples": 8000}


def _name(profile="json", spellings=("qn", "str", "bare", "uri")):
    return st.builds(lambda ns, l, p, a: {"ns": ns, "local": l, "prefix": p, "as": a}, st.sampled_from(NSS),
                     st.sampled_from(["e1", "a1", "ag1", "e2", "a2", "x9"]), st.sampled_from(["ex", "p", "zz", "ex_1", ""]),
                     st.sampled_from(spellings))


@st.composite
def _rec(draw):
    kind = draw(st.sampled_from(spec.KIND_LIST))
    pname, tname, is_el, fargs, mand, fac, fac_id = spec.KINDS[kind]
    via = draw(st.sampled_from(["factory", "new_record", "alias", "convenience", "convenience"]))
    ident = draw(_name()) if (is_el or (draw(st.booleans()) and via != "convenience")) else None
    formal = {}
    for i, (arg, typ) in enumerate(fargs):
        if i < mand or draw(st.booleans()):
            if typ == "ref":
                formal[arg] = draw(st.one_of(_name().map(lambda n: {"name": n}), st.integers(0, 9).map(lambda i: {"rec": i})))
            else:
                formal[arg] = {"t": draw(gen.datetime_iso()), "as": draw(st.sampled_from(["dt", "str"]))}
    if via == "convenience" and fargs and not is_el:
        formal[fargs[0][0]] = {"rec": draw(st.integers(0, 9))}
    attrs = draw(_attrs())
    if via == "alias" and kind not in spec.ALIASES:
        via = "factory"
    if ident is not None and not fac_id and not is_el:
        via = "new_record"
    return ["rec", 0, kind, ident, formal, attrs, via]


def _attrs():
    val = gen.value("json", ["str", "int", "float", "bool", "dt", "uri", "qn", "lang", "lit", "tlit", "tlit", "tlit"])
    nm = st.one_of(st.sampled_from([gen.prov_name(s, a) for s in spec.PROV_ATTR_SLOTS for a in ("qn", "str")]),
                   _name(spellings=("qn", "str", "bare")).map(lambda n: dict(n, local="k" + n["local"][:1])))
    return st.lists(st.tuples(nm, val).map(list), max_size=3).map(lambda a: gen.normalise_attrs(a)[0])


def follow_up_op():
    """mutations of existing records through every public mutator (also used by C04's mutate-after-compare mode)"""
    return st.one_of(
        st.builds(lambda i, a, f: ["attrs", i, a, f], st.integers(0, 30), _attrs(), st.sampled_from(["dict", "pairs"])),
        st.builds(lambda i, k, n, t, form: ["readd", i, k, False, n, t, form], st.integers(0, 30), st.integers(0, 4),
                  _name(), gen.datetime_iso(), st.sampled_from(["dict", "pairs"])),
        st.builds(lambda i, s, e, a1, a2: ["set_time", i, s, e, a1, a2], st.integers(0, 30),
                  st.one_of(st.none(), gen.datetime_iso()), st.one_of(st.none(), gen.datetime_iso()),
                  st.sampled_from(["dt", "str"]), st.sampled_from(["dt", "str"])),
        st.builds(lambda i, v: ["asserted_type", i, v], st.integers(0, 30), gen.value("json", ["qn", "str", "int"])),
    )


def strategy(tier):
    op = st.one_of(
        _rec(), _rec(), _rec(),
        st.builds(lambda i, a, f: ["attrs", i, a, f], st.integers(0, 30), _attrs(), st.sampled_from(["dict", "pairs"])),
        st.builds(lambda i, k, same, n, t, form: ["readd", i, k, same, n, t, form], st.integers(0, 30), st.integers(0, 4),
                  st.booleans(), _name(), gen.datetime_iso(), st.sampled_from(["dict", "pairs"])),
        st.builds(lambda i, s, e, a1, a2: ["set_time", i, s, e, a1, a2], st.integers(0, 30),
                  st.one_of(st.none(), gen.datetime_iso()), st.one_of(st.none(), gen.datetime_iso()),
                  st.sampled_from(["dt", "str"]), st.sampled_from(["dt", "str"])),
        st.builds(lambda i, v: ["asserted_type", i, v], st.integers(0, 30),
                  gen.value("json", ["qn", "qn", "str", "tlit", "uri", "lit"])),
        st.sampled_from(NSS).map(lambda u: ["set_default", u]),
        st.builds(lambda i, k, n1, n2, t1, t2, new: ["double", i, k, n1, n2, t1, t2, new], st.integers(0, 30), st.integers(0, 4),
                  _name(), _name(), gen.datetime_iso(), gen.datetime_iso(), st.booleans()),
    )
    return st.lists(op, min_size=1, max_size=8).map(lambda ops: {"profile": "json", "ops": ops})


def matrix(tier):
    reprs = ["qn", "str", "bare", "uri", "rec"]
    for kind in spec.RELATION_KINDS:
        pname, tname, is_el, fargs, mand, fac, fac_id = spec.KINDS[kind]
        for via, rep, tform, ident in itertools.product(["factory", "new_record", "alias", "convenience"], reprs,
                                                       ["dt", "str"], [False, True]):
            if via == "convenience" and (kind not in CONVENIENCE or ident):
                continue
            if ident and not fac_id and via != "new_record":
                continue
            formal = {}
            for i, (arg, typ) in enumerate(fargs):
                if typ == "time":
                    formal[arg] = {"t": "2012-03-02T10:30:00+01:00" if i % 2 else "2012-03-02T10:30:00.250000", "as": tform}
                elif rep == "rec" or (via == "convenience" and i == 0):
                    formal[arg] = {"rec": i}
                else:
                    ns = NSS[i % 3]
                    formal[arg] = {"name": {"ns": ns, "local": ["e1", "a1", "ag1"][i % 3], "prefix": "zz", "as": rep}}
            idn = {"ns": "http://a/", "local": "r1", "prefix": "ex", "as": rep if rep != "rec" else "qn"} if ident else None
            yield {"profile": "json", "ops": [["rec", 0, kind, idn, formal, [], via]], "cell": [kind, via, rep, tform, ident]}
    # the refusal / no-op rule, exhaustively: every relation kind x every formal argument x same / different value x
    # dict / pair-list form, on a record that has all its formal arguments
    for kind in spec.RELATION_KINDS:
        pname, tname, is_el, fargs, mand, fac, fac_id = spec.KINDS[kind]
        formal = {}
        for i, (arg, typ) in enumerate(fargs):
            if typ == "time":
                formal[arg] = {"t": "2012-03-02T10:30:00+01:00", "as": "dt"}
            else:
                formal[arg] = {"name": {"ns": NSS[i % 3], "local": ["e1", "a1", "ag1"][i % 3], "prefix": "zz", "as": "qn"}}
        for k, (arg, typ) in enumerate(fargs):
            for same in (True, False):
                for form in ("dict", "pairs"):
                    yield {"profile": "json", "ops": [["rec", 0, kind, None, formal, [], "factory"],
                                                      ["readd", len(SETUP) - 3, k, same,
                                                       {"ns": "http://other.example/", "local": "different", "prefix": "oth", "as": "qn"},
                                                       "1999-12-31T23:59:59", form]],
                           "cell": ["readd", kind, arg, same, form]}
    # two DIFFERENT values for one formal argument arriving in ONE call (pair list), on a record that has the argument
    # (current value + another) and while creating a record (new_record with the argument named twice)
    for kind in spec.KIND_LIST:
        pname, tname, is_el, fargs, mand, fac, fac_id = spec.KINDS[kind]
        formal = {}
        for i, (arg, typ) in enumerate(fargs):
            if typ == "time":
                formal[arg] = {"t": "2012-03-02T10:30:00+01:00", "as": "dt"}
            else:
                formal[arg] = {"name": {"ns": NSS[i % 3], "local": ["e1", "a1", "ag1"][i % 3], "prefix": "zz", "as": "qn"}}
        idn = {"ns": "http://a/", "local": "r1", "prefix": "ex", "as": "qn"} if is_el else None
        for k, (arg, typ) in enumerate(fargs):
            for new in (False, True):
                yield {"profile": "json", "ops": [["rec", 0, kind, idn, formal, [], "factory"],
                                                  ["double", len(SETUP) - 3, k,
                                                   {"ns": "http://other.example/", "local": "different", "prefix": "oth", "as": "qn"},
                                                   {"ns": "http://other.example/", "local": "another", "prefix": "oth", "as": "qn"},
                                                   "1999-12-31T23:59:59", "2001-01-01T00:00:00", new]],
                       "cell": ["double", kind, arg, new]}
    # activity with times, every path and time form
    for via, tform in itertools.product(["factory", "new_record"], ["dt", "str"]):
        yield {"profile": "json", "ops": [["rec", 0, "activity", {"ns": "http://a/", "local": "a9", "prefix": "ex", "as": "str"},
                                           {"startTime": {"t": "2012-03-02T10:30:00+01:00", "as": tform},
                                            "endTime": {"t": "2012-03-02T11:30:00", "as": tform}}, [], via]], "cell": ["activity", via, tform]}


def _it(b, **kw):
    d = {"b": b}
    d.update(kw)
    return d


def _invariant(b, items, ctx):
    from prov.identifier import QualifiedName
    formal_ref = {spec.PROV_NS + a for k in spec.KINDS for a, t in spec.formal_args(k) if t == "ref"}
    formal_time = {spec.PROV_NS + a for k in spec.KINDS for a, t in spec.formal_args(k) if t == "time"}
    for si, rec, m in b.records:
        got, want = crecord(rec), mrec_canon(m)
        if got != want:
            ga, wa = set(got[2]), set(want[2])
            for a, v in sorted(wa - ga, key=repr)[:3]:
                items.append(_it("model_missing:%s" % ("formal" if a in formal_ref | formal_time else v[0]), rec=str(rec)[:100], attr=a, val=list(v)))
            for a, v in sorted(ga - wa, key=repr)[:3]:
                items.append(_it("model_extra:%s" % ("formal" if a in formal_ref | formal_time else v[0]), rec=str(rec)[:100], attr=a, val=list(v)))
            if got[0] != want[0] or got[1] != want[1]:
                items.append(_it("model_type_or_id", got=list(got[:2]), want=list(want[:2])))
        byname = {}
        for a, v in rec.attributes:
            byname.setdefault(a.uri, []).append(v)
        for a, vs in byname.items():
            if a in formal_ref | formal_time and len(vs) > 1:
                items.append(_it("formal_multi_valued", attr=a, n=len(vs)))
            for v in vs:
                if a in formal_ref and not isinstance(v, QualifiedName):
                    items.append(_it("formal_ref_not_qualified_name", attr=a, type=type(v).__name__))
                if a in formal_time and not isinstance(v, datetime.datetime):
                    items.append(_it("formal_time_not_datetime", attr=a, type=type(v).__name__))
        fa = rec.formal_attributes
        if tuple(v for _, v in fa) != tuple(rec.args):
            items.append(_it("args_disagree_with_formal_attributes"))
        for a, v in fa:
            have = byname.get(a.uri, [])
            if (v is None) != (not have) or (v is not None and v not in have):
                items.append(_it("formal_attributes_disagree_with_attributes", attr=a.uri))
        if len(items) > 5:
            return


def _c05_op(b, op, items, ctx):
    from prov.model import ProvException
    from prov.identifier import Namespace
    code = op[0]
    if not b.records:
        return
    PROV = Namespace("prov", spec.PROV_NS)
    if code == "readd":
        si, rec, m = b.records[op[1] % len(b.records)]
        fargs = spec.formal_args(m["kind"])
        if not fargs:
            return
        arg, typ = fargs[op[2] % len(fargs)]
        auri = spec.PROV_NS + arg
        cur = [v for a, v in m["attrs"] if a == auri]
        same = op[3]
        if typ == "ref":
            if cur and same:
                u = cur[0][1]
                from ..build import split_uri
                ns, local = split_uri(u)
                nm = {"ns": ns, "local": local, "prefix": op[4]["prefix"], "as": "qn"}
            else:
                nm = op[4]
                if cur and name_uri(nm) == cur[0][1]:
                    same = True
            val_py, val_m = spell(b, si, nm), ("qn", name_uri(nm))
        else:
            if cur and same:
                iso = cur[0][1] if cur[0][2] is None else _iso_with_offset(cur[0])
                t = {"t": iso, "as": "str" if op[1] % 2 else "dt"}
            else:
                t = {"t": op[5], "as": "str" if op[1] % 2 else "dt"}
                if cur and _time_model(t) == cur[0]:
                    same = True
                elif cur and _same_instant(_time_model(t), cur[0]):
                    ctx.count("skipped:readd_same_instant_other_zone")
                    return
            val_py, val_m = _time_py(t), _time_model(t)
        payload = {PROV[arg]: val_py} if op[6] == "dict" else [("prov:" + arg, val_py)]
        before = crecord(rec)
        if not cur:
            rec.add_attributes(payload)
            m["attrs"].append((auri, val_m))
            ctx.count("op:readd_set_absent")
        elif same:
            rec.add_attributes(payload)   # must be a silent no-op
            if crecord(rec) != before:
                items.append(_it("readd_same_changed_record"))
            ctx.count("op:readd_same")
        else:
            try:
                rec.add_attributes(payload)
                items.append(_it("second_formal_value_accepted", attr=auri, rec=str(rec)[:100]))
            except ProvException:
                ctx.count("op:readd_diff_refused")
            if crecord(rec) != before and not items:
                items.append(_it("refusal_changed_record"))
    elif code == "double":
        si, rec, m = b.records[op[1] % len(b.records)]
        fargs = spec.formal_args(m["kind"])
        if not fargs:
            return
        arg, typ = fargs[op[2] % len(fargs)]
        auri = spec.PROV_NS + arg
        if m["kind"] == "membership" and arg == "entity":
            return      # several members in one membership: compatibility path, not claimed
        if typ == "ref":
            if name_uri(op[3]) == name_uri(op[4]):
                return
            v1, v2 = spell(b, si, op[3]), spell(b, si, op[4])
            m1, m2 = ("qn", name_uri(op[3])), ("qn", name_uri(op[4]))
        else:
            t1, t2 = {"t": op[5], "as": "dt"}, {"t": op[6], "as": "str"}
            if _time_model(t1) == _time_model(t2) or _same_instant(_time_model(t1), _time_model(t2)):
                return
            v1, v2 = _time_py(t1), _time_py(t2)
            m1, m2 = _time_model(t1), _time_model(t2)
        if op[7]:
            # while creating: the record's own formal arguments, then the chosen one named twice with different values
            scope = b.scopes[si]
            n_before = len(list(scope.get_records()))
            pairs = [(a, v) for a, v in rec.attributes if a.uri != auri and a.uri in {spec.PROV_NS + x for x, _ in fargs}]
            pairs += [(PROV[arg], v1), (PROV[arg], v2)]
            try:
                scope.new_record(rec.get_type(), rec.identifier, pairs)
                items.append(_it("two_formal_values_accepted_at_creation", attr=auri, kind=m["kind"]))
            except ProvException:
                ctx.count("op:double_at_creation_refused")
            if len(list(scope.get_records())) != n_before and not items:
                items.append(_it("refused_creation_left_a_record"))
            return
        cur = [v for a, v in m["attrs"] if a == auri]
        before = crecord(rec)
        try:
            rec.add_attributes([(PROV[arg], v1), (PROV[arg], v2)])
            items.append(_it("two_formal_values_accepted_in_one_call", attr=auri, rec=str(rec)[:100]))
        except ProvException:
            ctx.count("op:double_refused")
        have = [v for a, v in rec.attributes if a.uri == auri]
        if len(have) > 1 and not items:
            items.append(_it("formal_multi_valued_after_refusal", attr=auri))
        if cur:
            if crecord(rec) != before and not items:
                items.append(_it("refusal_changed_record"))
        elif len(have) == 1:
            # the first of the two values may have been taken before the second was refused
            from ..canon import cval
            m["attrs"].append((auri, cval(have[0])))
    elif code == "set_time":
        acts = [(si, r, m) for (si, r, m) in b.records if m["kind"] == "activity"]
        if not acts:
            return
        si, rec, m = acts[op[1] % len(acts)]
        kw = {}
        new_attrs = list(m["attrs"])
        differs = False
        for key, iso, form in (("startTime", op[2], op[4]), ("endTime", op[3], op[5])):
            if iso is None:
                continue
            t = {"t": iso, "as": form}
            kw[key] = _time_py(t)
            old = [v for a, v in new_attrs if a == spec.PROV_NS + key]
            if old and old[0] != _time_model(t):
                differs = True
            new_attrs = [(a, v) for a, v in new_attrs if a != spec.PROV_NS + key]
            new_attrs.append((spec.PROV_NS + key, _time_model(t)))
            if form == "str":
                ctx.count("time:str")
        before = crecord(rec)
        try:
            rec.set_time(**kw)
            m["attrs"] = new_attrs          # a setter: the record now holds the new time(s)
        except ProvException:
            # refusing a DIFFERENT second value is the other behaviour the statement allows; nothing may have changed
            if not differs:
                items.append(_it("set_time_refused_without_conflict"))
            elif crecord(rec) != before:
                items.append(_it("refusal_changed_record"))
            ctx.count("op:set_time_refused")
        ctx.count("op:set_time")
    elif code == "asserted_type":
        si, rec, m = b.records[op[1] % len(b.records)]
        v = op[2]
        cand, dropped = gen.normalise_attrs(m["intent_attrs"] + [[gen.prov_name("type"), v]])
        if dropped:
            return
        m["intent_attrs"].append([gen.prov_name("type"), v])
        rec.add_asserted_type(pyvalue(b, si, v))
        m["attrs"].append((spec.PROV_NS + "type", mval(v)))
        ctx.count("op:asserted_type")


def _iso_with_offset(cv):
    d = datetime.datetime.fromisoformat(cv[1]).replace(tzinfo=datetime.timezone(datetime.timedelta(seconds=cv[2])))
    return d.isoformat()


def _same_instant(a, b):
    if a[2] is None or b[2] is None:
        return False
    da = datetime.datetime.fromisoformat(a[1]) - datetime.timedelta(seconds=a[2])
    db = datetime.datetime.fromisoformat(b[1]) - datetime.timedelta(seconds=b[2])
    return da == db


def check(case, ctx):
    from prov.model import ProvDocument
    b = Built()
    b.doc = ProvDocument()
    b.scopes = [b.doc]
    b.model = [[]]
    items = []
    for op in SETUP:
        apply_op(b, op)
    nt = False
    for op in case["ops"]:
        if op[0] in ("readd", "double", "set_time", "asserted_type"):
            _c05_op(b, op, items, ctx)
            nt = True
        elif op[0] == "set_default":
            # the default namespace may be changed between calls: later bare names mean the new one
            b.doc.set_default_namespace(op[1])
            ctx.count("op:set_default")
        else:
            apply_op(b, op)
        if not items:
            _invariant(b, items, ctx)
        if items:
            break
    st_ = b.stats
    for k, v in st_.items():
        if k.startswith(("via:", "spell:", "ref:", "kind:")):
            ctx.count(k, v)
    for ms in b.model:
        for m in ms:
            for _, v in m["intent_attrs"]:
                if v["k"] == "tlit":
                    ctx.count("value:tlit")
                    nt = True
    for op in case["ops"]:
        if op[0] == "rec":
            for a in op[4].values():
                if a.get("as") == "str" and "t" in a:
                    ctx.count("time:str")
                    nt = True
    if st_["spell:str"] + st_["spell:bare"] + st_["spell:uri"] + st_["ref:record-object"] > 3:
        nt = True
    ctx.nontrivial(nt)
    return items
