"""C03 - qualified names keep their URI and stay unambiguous under any namespace history (stateful)."""
from hypothesis import strategies as st
from hypothesis.stateful import rule, precondition

from .. import stateful

ID = "C03"
LEVEL = "exploration"
RULE = ("Hypothesis RuleBasedStateMachine over one document and up to 3 bundles (doc.bundle and add_bundle of a free "
        "bundle): rules add_namespace (string pair / Namespace object), set_default_namespace (only on a scope whose "
        "default is unset or equal: the usage discipline of the statement), valid_qualified_name on QualifiedName "
        "objects, 'prefix:local' strings, bare locals and full-URI strings, from small colliding alphabets. After every "
        "step: (a) result URI == input URI, (b) every (prefix -> uri) ever observed in scope.namespaces is still "
        "there, (c) every name handed out by a scope, printed and resolved again in that scope, denotes the same URI. "
        "Non-trivial = the history contains a prefix clash or a default-namespace name and a resolution after it; "
        "distinct by SHA-1 of the history.")
ASSUMPTIONS = [
    "usage discipline as stated: set_default_namespace(u) is only issued when get_default_namespace() is None or already u",
    "(c) is not asserted for a name printed without prefix whose local part contains ':' or is empty (not printable as a bare name in any PROV syntax)",
    "a 'prefix:local' string in a bundle is expected to resolve through the document only when the bundle itself never asked for that prefix (a renamed request shadows the document's binding)",
    "string inputs are expected to resolve only where scope.namespaces / get_default_namespace() (public API) bind them; unbound strings carry no claim",
]
REQUIRED_CLASSES = {"all": ["op:qn", "op:str:pl", "op:str:bare", "op:str:uri", "op:ns", "op:default", "op:bundle", "op:check_c",
                            "clash", "resolved_via_parent"]}

PREFIXES = ["ex", "p", "ex_1", "dn", "dn_1", "prov", ""]
URIS = ["http://a/", "http://a/x/", "http://b/ns#", "urn:c:", "http://a/my%20data/", "http://a/caf\u00e9#", "http://A/",
        "http://www.w3.org/ns/prov#"]
LOCALS = ["a", "b1", "x/y", "c.d", "r?u=http://a/", "x/"]
PLAIN_LOCALS = ["a", "b1", "x/y", "c.d"]
BUILTIN = {"prov": "http://www.w3.org/ns/prov#", "xsd": "http://www.w3.org/2001/XMLSchema#",
           "xsi": "http://www.w3.org/2001/XMLSchema-instance"}


class State:
    def __init__(self):
        from prov.model import ProvDocument
        self.doc = ProvDocument()
        self.scopes = [self.doc]
        self.handed = [[]]      # per scope: [(qualified name object, uri)]
        self.observed = [{}]    # per scope: prefix -> uri
        self.requested = [{}]   # per scope: prefix -> set of requested uris (clash detection)
        self.flags = set()
        self.res_after_flag = False
        self.ns_pool = {}       # (prefix, uri) -> caller-owned Namespace object, reused (its name cache fills up)


def new_state():
    return State()


def history_nontrivial(s, ctx):
    return s.res_after_flag


def _item(b, **kw):
    d = {"b": b}
    d.update(kw)
    return d


def _bound(s, si, prefix):
    """URI the public API says `prefix` denotes in scope si (own table first, then the document's), or None"""
    scope = s.scopes[si]
    for n in scope.namespaces:
        if n.prefix == prefix:
            return n.uri, False
    if prefix in BUILTIN and not any(n.prefix == prefix for n in scope.namespaces):
        return BUILTIN[prefix], False
    if si != 0 and prefix not in s.requested[si]:
        # (a prefix this bundle itself asked for, even if the manager renamed it, shadows the document's)
        for n in s.doc.namespaces:
            if n.prefix == prefix:
                return n.uri, True
    return None, False


def _hand(s, si, q, ctx):
    s.handed[si].append((q, q.uri))
    if s.flags:
        s.res_after_flag = True


def _invariants(s, ctx, check_c=False):
    items = []
    for si, scope in enumerate(s.scopes):
        now = {}
        for n in scope.namespaces:
            if n.prefix in now and now[n.prefix] != n.uri:
                items.append(_item("b:prefix_twice", scope=si, prefix=n.prefix))
            now[n.prefix] = n.uri
        for p, u in s.observed[si].items():
            if now.get(p) != u:
                items.append(_item("b:repointed", scope=si, prefix=p, was=u, now=now.get(p)))
        s.observed[si].update(now)
        # (c) is only evaluated when the history asks for it: resolving a printed name has side effects (it may
        # register the parent's namespace in the bundle), so checking after every step would mask stale names
        for q, u in (s.handed[si] if check_c else ()):
            printed = str(q)
            if ":" in q.localpart and not q.namespace.prefix:
                ctx.count("skipped_c:colon_in_bare_local")
                continue
            if printed == "":
                ctx.count("skipped_c:empty_bare_name")
                continue
            r = scope.valid_qualified_name(printed)
            if r is None:
                items.append(_item("c:unresolvable", scope=si, printed=printed, uri=u))
            elif r.uri != u:
                items.append(_item("c:ambiguous", scope=si, printed=printed, uri=u, got=r.uri))
            if len(items) > 3:
                return items
    return items


def apply(s, op, ctx):
    from prov.identifier import Namespace, QualifiedName
    from prov.model import ProvBundle
    code = op[0]
    items = []
    if code == "bundle":
        if len(s.scopes) > 3:
            ctx.count("skipped:bundle")
            return []
        n = len(s.scopes)
        q = QualifiedName(Namespace(op[2], op[3]), "bundle%d" % n)
        if op[1] == "add_bundle":
            nb = ProvBundle(identifier=q)
            s.doc.add_bundle(nb)
        else:
            nb = s.doc.bundle(q)
        s.scopes.append(nb)
        s.handed.append([])
        s.observed.append({})
        s.requested.append({})
        if nb.identifier is None or nb.identifier.uri != q.uri:
            items.append(_item("a:bundle_id_uri", want=q.uri, got=getattr(nb.identifier, "uri", None)))
        else:
            _hand(s, n, nb.identifier, ctx)
        ctx.count("op:bundle")
    elif code == "ns":
        si = op[1] % len(s.scopes)
        scope = s.scopes[si]
        prefix, uri = op[2], op[3]
        if not prefix:
            prefix = "q"
        if op[4]:
            # a caller-owned Namespace object that may already have minted names (module-level constants are used so)
            obj = s.ns_pool.setdefault((prefix, uri), Namespace(prefix, uri))
            ns = scope.add_namespace(obj)
        else:
            ns = scope.add_namespace(prefix, uri)
        if ns is None or ns.uri != uri:
            items.append(_item("b:add_namespace_uri", want=uri, got=getattr(ns, "uri", None)))
        else:
            r = scope.valid_qualified_name("%s:%s" % (ns.prefix, "zz"))
            if r is None or r.uri != uri + "zz":
                items.append(_item("b:returned_prefix_unusable", prefix=ns.prefix, want=uri + "zz",
                                   got=getattr(r, "uri", None)))
        req = s.requested[si].setdefault(prefix, set())
        req.add(uri)
        if len(req) > 1 or (prefix in BUILTIN and BUILTIN[prefix] != uri):
            s.flags.add("clash")
            ctx.count("clash")
        ctx.count("op:ns")
    elif code == "default":
        si = op[1] % len(s.scopes)
        scope = s.scopes[si]
        cur = scope.get_default_namespace()
        if cur is None or cur.uri == op[2]:
            scope.set_default_namespace(op[2])
            d = scope.get_default_namespace()
            if d is None or d.uri != op[2]:
                items.append(_item("b:default_not_set", want=op[2]))
            s.flags.add("default")
            ctx.count("op:default")
        else:
            ctx.count("skipped:default_rebind")
    elif code == "qn":
        si = op[1] % len(s.scopes)
        scope = s.scopes[si]
        if op[1] % 2 and op[2]:
            q = s.ns_pool.setdefault((op[2], op[3]), Namespace(op[2], op[3]))[op[4]]    # minted from the shared object
        else:
            q = QualifiedName(Namespace(op[2], op[3]), op[4])
        r = scope.valid_qualified_name(q)
        if r is None:
            items.append(_item("a:qn_rejected", uri=q.uri))
        elif r.uri != q.uri:
            items.append(_item("a:qn_uri_changed", want=q.uri, got=r.uri))
        else:
            if not op[2]:
                s.flags.add("default")
                ctx.count("qn:default_ns")
            # an empty-prefix name of a foreign namespace is registered by the library under the prefix 'dn'
            req = s.requested[si].setdefault(op[2] or "dn", set())
            req.add(op[3])
            if op[2] and len(req) > 1:
                s.flags.add("clash")
                ctx.count("clash")
            _hand(s, si, r, ctx)
        ctx.count("op:qn")
    elif code == "str":
        si = op[1] % len(s.scopes)
        scope = s.scopes[si]
        kind = op[2]
        if kind == "pl":
            prefix, local = op[3], op[4]
            if not prefix:
                prefix = "q"
            want_ns, via_parent = _bound(s, si, prefix)
            text = "%s:%s" % (prefix, local)
            r = scope.valid_qualified_name(text)
            if want_ns is not None:
                if via_parent:
                    ctx.count("resolved_via_parent")
                if r is None:
                    items.append(_item("str:bound_prefix_rejected", text=text, want=want_ns + local))
                elif r.uri != want_ns + local:
                    items.append(_item("str:bound_prefix_wrong_uri", text=text, want=want_ns + local, got=r.uri))
            else:
                ctx.count("str:unbound_prefix")
            if r is not None and not items:
                _hand(s, si, r, ctx)
        elif kind == "bare":
            local = op[4]
            d = scope.get_default_namespace()
            via_parent = False
            if d is None and si != 0:
                d = s.doc.get_default_namespace()
                via_parent = d is not None
            r = scope.valid_qualified_name(local)
            if d is not None:
                s.flags.add("default")
                if via_parent:
                    ctx.count("resolved_via_parent")
                if r is None:
                    items.append(_item("str:bare_rejected", text=local, want=d.uri + local))
                elif r.uri != d.uri + local:
                    items.append(_item("str:bare_wrong_uri", text=local, want=d.uri + local, got=r.uri))
            else:
                ctx.count("str:bare_without_default")
            if r is not None and not items:
                _hand(s, si, r, ctx)
        else:  # full URI string
            text = op[3] + op[4]
            r = scope.valid_qualified_name(text)
            if r is None:
                ctx.count("str:uri_not_compactable")
            elif r.uri != text:
                items.append(_item("str:uri_changed", text=text, got=r.uri))
            else:
                ctx.count("str:uri_compacted")
                _hand(s, si, r, ctx)
        ctx.count("op:str:" + kind)
    elif code == "check_c":
        ctx.count("op:check_c")
    else:
        raise ValueError(code)
    if not items:
        items = _invariants(s, ctx, check_c=(code == "check_c"))
    return items


def make_machine(Base):
    class NamespaceHistories(Base):
        @rule(how=st.sampled_from(["bundle", "add_bundle"]), prefix=st.sampled_from(PREFIXES[:5]),
              uri=st.sampled_from(URIS[:7]))
        def bundle(self, how, prefix, uri):
            self.do(["bundle", how, prefix, uri])

        @rule(scope=st.integers(0, 3), prefix=st.sampled_from(PREFIXES), uri=st.sampled_from(URIS), obj=st.booleans())
        def add_namespace(self, scope, prefix, uri, obj):
            self.do(["ns", scope, prefix, uri, obj])

        @rule(scope=st.integers(0, 3), uri=st.sampled_from(URIS[:7]))
        def set_default(self, scope, uri):
            self.do(["default", scope, uri])

        @rule(scope=st.integers(0, 3), prefix=st.sampled_from(PREFIXES), uri=st.sampled_from(URIS),
              local=st.sampled_from(LOCALS))
        def resolve_qname(self, scope, prefix, uri, local):
            self.do(["qn", scope, prefix, uri, local])

        @rule(scope=st.integers(0, 3), prefix=st.sampled_from(PREFIXES + ["xsd", "nope"]), local=st.sampled_from(PLAIN_LOCALS))
        def resolve_prefixed_string(self, scope, prefix, local):
            self.do(["str", scope, "pl", prefix, local])

        @rule(scope=st.integers(0, 3), local=st.sampled_from(PLAIN_LOCALS))
        def resolve_bare_string(self, scope, local):
            self.do(["str", scope, "bare", "", local])

        @rule(scope=st.integers(0, 3), uri=st.sampled_from(URIS), local=st.sampled_from(LOCALS))
        def resolve_uri_string(self, scope, uri, local):
            self.do(["str", scope, "uri", uri, local])

        @rule()
        def print_and_resolve_all_names(self):
            self.do(["check_c"])

    return NamespaceHistories


def budget(tier):
    return {"shards": 8, "machines": 1200, "steps": 40} if tier == "quick" else {"shards": 16, "machines": 4000, "steps": 50}


def run_stateful(tier, seed, ctx, findings, reported, failures):
    import sys
    mod = sys.modules[__name__]
    b = budget(tier)
    stateful.run_machine(mod, make_machine, b["machines"], b["steps"], seed, ctx, findings, reported, failures)


def check(case, ctx):
    import sys
    return stateful.check_history(sys.modules[__name__], case, ctx)
