"""C16 - all source / destination kinds agree, and prov.read detects the format."""
import io
import os

from hypothesis import strategies as st

from .. import gen
from ..build import build
from ..canon import canon, as_sets, diff_canon, diff_sets
from ..xmlx import why_not_expressible
from . import c07

ID = "C16"
LEVEL = "exploration"
RULE = ("Documents from the intersection of the C01/C02/C07 spaces (C07's constructive generator, XML-expressible, forced "
        "to carry non-ASCII text in a value). For EACH document the full product is run: format {json, xml, rdf, provn} x "
        "destination {returned string, StringIO, BytesIO, file path} - all texts must agree (binary = UTF-8 of the text; "
        "XML compared after C14N; RDF compared as graphs when the texts differ, because blank-node labels are arbitrary) - "
        "and for the readable formats source {content str, content bytes, text stream, binary stream, path} with an "
        "explicit format, plus prov.read on {path, text stream, binary stream} with and without a format: every loaded "
        "document must have the original's strict content (RDF: set equality with unified()). Non-trivial = the document "
        "has a record with a non-ASCII value (every generated one); distinct by SHA-1 of the recipe; per-cell counters.")
ASSUMPTIONS = [
    "file paths are plain local names inside a per-shard scratch directory (C17 covers hostile names and failures)",
    "RDF text equality is not claimed across calls (blank-node labels); graphs are compared instead when texts differ",
    "text-mode path sources are opened by the library with the platform default encoding; the sandbox default is UTF-8",
]
FORMATS = ["json", "json-raw", "xml", "rdf", "provn"]     # json-raw = json with ensure_ascii=False
READABLE = ["json", "json-raw", "xml", "rdf"]
REQUIRED_CLASSES = {"all": ["dest:%s:%s" % (f, d) for f in FORMATS for d in ("str", "text", "binary", "path", "textfile", "namedtemp", "spooled")] +
                    ["src:xml:reread_after_failed_attempt", "src:rdf:reread_after_failed_attempt"] +
                    ["src:%s:%s" % (f, s) for f in READABLE for s in ("content_str", "content_bytes", "text", "binary", "path", "textfile")] +
                    ["read:%s:%s:%s" % (f, s, m) for f in READABLE for s in ("path", "text", "binary", "textfile") for m in ("auto", "explicit")]}


def budget(tier):
    return {"shards": 8, "examples": 150} if tier == "quick" else {"shards": 16, "examples": 700}


def strategy(tier):
    return st.builds(lambda r, t: dict(r, nonascii=t), c07._recipe(), st.sampled_from(["é漢字", "naïve – ‘quoted’", "Ωmega \U0001F600", "ß"]))


def matrix(tier):
    for i, c in enumerate(c07.matrix(tier)):
        if i % 12 == 0:
            yield dict(c, nonascii="é漢")
    # documents larger than any I/O buffer, multi-byte characters at every alignment (block-wise decoding, chunked writes)
    head = [["ns", 0, p, u] for p, u in c07.NSS]
    for shift in range(3):
        big = "x" * shift + "漢é" * 30000
        yield {"profile": "rdf", "ops": head + [["rec", 0, "entity", {"ns": c07.NSS[0][1], "local": "big", "prefix": "ex", "as": "qn"}, {},
                                                  [[{"ns": c07.NSS[0][1], "local": "k", "prefix": "ex", "as": "qn"}, {"k": "str", "v": big}]], "factory"]],
               "nonascii": "漢" * 3000 + "é", "cell": ["big", shift]}
    # non-ASCII letters in NAMES (attribute local part, identifier): names cannot be written as character references
    for i, nm in enumerate(["größe", "naïve", "漢字", "Ωmega"]):
        yield {"profile": "rdf", "ops": head + [["rec", 0, "entity", {"ns": c07.NSS[0][1], "local": "e" + nm, "prefix": "ex", "as": "qn"}, {},
                                                  [[{"ns": c07.NSS[i % 3][1], "local": nm, "prefix": c07.NSS[i % 3][0], "as": "qn"}, {"k": "str", "v": "v" + nm}]], "factory"]],
               "nonascii": nm, "cell": ["non-ascii-names", nm]}
    # what a fresh interpreter sees: another format (or none) used explicitly first, then prov.read() without a format
    small = head + [["rec", 0, "entity", {"ns": c07.NSS[0][1], "local": "e1", "prefix": "ex", "as": "qn"}, {}, [], "factory"],
                    ["rec", 0, "activity", {"ns": c07.NSS[1][1], "local": "a1", "prefix": "foo", "as": "qn"}, {}, [], "factory"],
                    ["rec", 0, "generation", None, {"entity": {"name": {"ns": c07.NSS[0][1], "local": "e1", "prefix": "ex", "as": "qn"}},
                                                      "activity": {"name": {"ns": c07.NSS[1][1], "local": "a1", "prefix": "foo", "as": "qn"}}}, [], "factory"]]
    for first in ("-", "json", "xml", "rdf", "provn"):
        for how in ("read", "write"):
            if (first == "-" and how == "write") or (first == "provn" and how == "read"):
                continue
            yield {"profile": "rdf", "ops": small, "nonascii": "é漢", "fresh": [first, how], "cell": ["fresh-process", first, how]}


def _it(b, **kw):
    d = {"b": b}
    d.update(kw)
    return d


def _c14n(data):
    from lxml import etree
    if isinstance(data, str):
        data = data.encode("utf-8")
    return etree.tostring(etree.fromstring(data), method="c14n")


def _same_text(fmt, a, b):
    """a, b: str"""
    if a == b:
        return True
    if fmt == "xml":
        try:
            return _c14n(a) == _c14n(b)
        except Exception:
            return False
    if fmt == "rdf":
        from .c13 import _iso
        return _iso(a, b, "trig")
    return False


def fresh_process(case, ctx):
    """prov.read() without a format in a fresh interpreter that has used at most one other format before"""
    import pickle
    import subprocess
    import sys
    b = build(c07.sanitise(case, ctx))
    d = b.doc
    want_bag = canon(d)
    want_set = as_sets(canon(d.unified()))
    wd = os.path.join(getattr(ctx, "workdir", "."), "fresh")
    os.makedirs(wd, exist_ok=True)
    files = {}
    for fmt in ("json", "xml", "rdf"):
        files[fmt] = os.path.join(wd, "doc." + fmt)
        c07.deterministic_bnodes()
        d.serialize(files[fmt], format=fmt)
    first, how = case["fresh"]
    items = []
    for fmt in ("json", "xml", "rdf"):
        out = os.path.join(wd, "out.pickle")
        if os.path.exists(out):
            os.remove(out)
        cmd = [sys.executable, "-m", "pbt.io_child", out, first, files[first] if how == "read" and first != "-" else "-", fmt, files[fmt]]
        p = subprocess.run(cmd, capture_output=True, text=True, timeout=300)
        if p.returncode != 0 or not os.path.exists(out):
            frames = [l for l in (p.stderr or "").splitlines() if l.strip().startswith('File "')]
            if frames and "/prov/" in frames[-1] and "/pbt/" not in frames[-1]:
                items.append(_it("fresh_process_failed:%s_then_%s" % (first, fmt), err=(p.stderr or "")[-300:]))
                continue
            raise RuntimeError("io_child failed: " + (p.stderr or "")[-500:])
        with open(out, "rb") as f:
            res = pickle.load(f)
        for kind, (st_, val) in sorted(res.items()):
            ctx.count("fresh:%s:%s" % (fmt, kind))
            if st_ == "exc":
                items.append(_it("read_fails_in_fresh_process:%s:%s" % (fmt, kind), after=first + ":" + how, err=val))
            elif val is None:
                items.append(_it("read_returned_none_in_fresh_process:%s:%s" % (fmt, kind), after=first + ":" + how))
            else:
                diff = diff_sets(want_set, as_sets(val)) if fmt == "rdf" else diff_canon(want_bag, val)
                if diff:
                    items.append(_it("content_differs:fresh:%s:%s" % (fmt, kind), first=diff[0]))
    ctx.nontrivial(True)
    for f in list(files.values()):
        os.remove(f)
    return items


def check(case, ctx):
    import prov
    from prov.model import ProvDocument
    from ..runner import exc_item
    c07.deterministic_bnodes()
    if case.get("fresh"):
        return fresh_process(case, ctx)
    used = c07.sanitise(case, ctx)
    # force a non-ASCII value into the first record
    ops = list(used["ops"])
    for i, o in enumerate(ops):
        if o[0] == "rec":
            o = list(o)
            o[5] = list(o[5]) + [[{"ns": c07.NSS[0][1], "local": "note", "prefix": "ex", "as": "qn"}, {"k": "str", "v": case.get("nonascii", "é")}]]
            if o[3] is None:
                # an anonymous relation must stay as the post-pass left it: an extra attribute would turn a plain
                # relation into a qualified one behind the back of the exclusions (F-C07-1) and of the quantifier
                continue
            ops[i] = o
            break
    else:
        ops.append(["rec", 0, "entity", {"ns": c07.NSS[0][1], "local": "extra", "prefix": "ex", "as": "qn"}, {},
                    [[{"ns": c07.NSS[0][1], "local": "note", "prefix": "ex", "as": "qn"}, {"k": "str", "v": case.get("nonascii", "é")}]], "factory"])
    if not any(o[0] == "rec" and any(a[0]["local"] == "note" for a in o[5]) for o in ops):
        ops.append(["rec", 0, "entity", {"ns": c07.NSS[0][1], "local": "extra", "prefix": "ex", "as": "qn"}, {},
                    [[{"ns": c07.NSS[0][1], "local": "note", "prefix": "ex", "as": "qn"}, {"k": "str", "v": case.get("nonascii", "é")}]], "factory"])
    b = build(dict(used, ops=ops))
    d = b.doc
    if why_not_expressible(d):
        ctx.count("not_xml_expressible")
        return []
    ctx.nontrivial(True)
    want_bag = canon(d)
    want_set = as_sets(canon(d.unified()))
    wd = os.path.join(getattr(ctx, "workdir", "."), "io")
    os.makedirs(wd, exist_ok=True)
    items = []

    def same_doc(fmt, d2, where):
        if fmt == "rdf":
            diff = diff_sets(want_set, as_sets(canon(d2)))
        else:
            diff = diff_canon(want_bag, canon(d2))
        if diff:
            items.append(_it("content_differs:%s" % where, first=diff[0]))

    for fmt_name in FORMATS:
        fmt = "json" if fmt_name == "json-raw" else fmt_name
        kw = {"ensure_ascii": False} if fmt_name == "json-raw" else {}
        try:
            c07.deterministic_bnodes()
            s_str = d.serialize(format=fmt, **kw)
            ctx.count("dest:%s:str" % fmt_name)
            c07.deterministic_bnodes()
            t = io.StringIO()
            d.serialize(t, format=fmt, **kw)
            s_text = t.getvalue()
            ctx.count("dest:%s:text" % fmt_name)
            c07.deterministic_bnodes()
            bio = io.BytesIO()
            d.serialize(bio, format=fmt, **kw)
            s_bin = bio.getvalue()
            ctx.count("dest:%s:binary" % fmt_name)
            path = os.path.join(wd, "doc-%s.%s" % (fmt_name, fmt))
            c07.deterministic_bnodes()
            d.serialize(path, format=fmt, **kw)
            with open(path, "rb") as f:
                s_path = f.read()
            ctx.count("dest:%s:path" % fmt_name)
        except Exception as e:
            return [exc_item(e, "serialize:" + fmt)]
        # a text-mode FILE destination in an encoding other than UTF-8: what is written is text, the stream encodes it
        try:
            try:
                s_str.encode("cp1252")
                denc = "cp1252"
            except UnicodeEncodeError:
                denc = "utf-16"
            tdest = os.path.join(wd, "dest-%s.%s.txt" % (fmt_name, denc))
            c07.deterministic_bnodes()
            with open(tdest, "w", encoding=denc, newline="") as fh:
                d.serialize(fh, format=fmt, **kw)
            with open(tdest, "r", encoding=denc, newline="") as fh:
                s_tfile = fh.read()
            os.remove(tdest)
            ctx.count("dest:%s:textfile" % fmt_name)
            if not _same_text(fmt, s_str, s_tfile):
                items.append(_it("text_differs:%s:str_vs_textfile_%s" % (fmt_name, denc)))
            elif fmt in ("json", "xml"):
                try:
                    dd = ProvDocument.deserialize(content=s_tfile, format=fmt)
                    same_doc(fmt, dd, "%s:textfile_destination" % fmt_name)
                except Exception as e:
                    items.append(exc_item(e, "deserialize:%s:textfile_destination" % fmt_name))
        except Exception as e:
            items.append(exc_item(e, "serialize:%s:textfile" % fmt_name))
        # binary file objects that are NOT io.BufferedIOBase / io.RawIOBase subclasses (tempfile wrappers): still binary
        try:
            import tempfile
            for tname, mk in (("namedtemp", lambda: tempfile.NamedTemporaryFile(dir=wd)), ("spooled", lambda: tempfile.SpooledTemporaryFile(max_size=1 << 30, dir=wd))):
                with mk() as tf:
                    c07.deterministic_bnodes()
                    d.serialize(tf, format=fmt, **kw)
                    tf.seek(0)
                    s_tmp = tf.read()
                ctx.count("dest:%s:%s" % (fmt_name, tname))
                if not isinstance(s_tmp, bytes) or not _same_text(fmt, s_str, s_tmp.decode("utf-8")):
                    items.append(_it("text_differs:%s:str_vs_%s" % (fmt_name, tname)))
        except Exception as e:
            items.append(exc_item(e, "serialize:%s:tempfile" % fmt_name))
        if not isinstance(s_str, str) or not isinstance(s_text, str) or not isinstance(s_bin, bytes):
            items.append(_it("destination_type:%s" % fmt))
            continue
        if not _same_text(fmt, s_str, s_text):
            items.append(_it("text_differs:%s:str_vs_textstream" % fmt))
        try:
            if not _same_text(fmt, s_str, s_bin.decode("utf-8")):
                items.append(_it("text_differs:%s:str_vs_binarystream" % fmt))
            if not _same_text(fmt, s_str, s_path.decode("utf-8")):
                items.append(_it("text_differs:%s:str_vs_file" % fmt))
        except UnicodeDecodeError:
            items.append(_it("binary_not_utf8:%s" % fmt))
        if fmt == "xml" and s_bin != s_path:
            items.append(_it("text_differs:xml:binarystream_vs_file"))
        if fmt_name not in READABLE or items:
            continue
        sources = {
            "content_str": lambda: dict(content=s_str), "content_bytes": lambda: dict(content=s_bin),
            "text": lambda: dict(source=io.StringIO(s_str)), "binary": lambda: dict(source=io.BytesIO(s_bin)),
            "path": lambda: dict(source=path),
        }
        # a text-mode FILE object in an encoding other than UTF-8: the stream's decoded text is what counts
        tpath = os.path.join(wd, "doc-%s.enc.txt" % fmt_name)
        try:
            s_str.encode("cp1252")
            enc = "cp1252"
        except UnicodeEncodeError:
            enc = "utf-16"
        ctx.count("textfile_encoding:" + enc)
        with open(tpath, "w", encoding=enc, newline="") as f:
            f.write(s_str)
        opened = []

        def _textfile():
            fh = open(tpath, "r", encoding=enc, newline="")
            opened.append(fh)
            return dict(source=fh)
        sources["textfile"] = _textfile
        for name, mk in sources.items():
            try:
                d2 = ProvDocument.deserialize(format=fmt, **mk())
            except Exception as e:
                items.append(exc_item(e, "deserialize:%s:%s" % (fmt, name)))
                continue
            ctx.count("src:%s:%s" % (fmt_name, name))
            if d2 is None:
                items.append(_it("deserialize_returned_none:%s:%s" % (fmt, name)))
                continue
            same_doc(fmt, d2, "%s:%s" % (fmt, name))
        # a caller-owned stream that was first tried with the WRONG format and then rewound stays usable
        if fmt in ("xml", "rdf"):
            own = io.BytesIO(s_bin)
            try:
                ProvDocument.deserialize(source=own, format="json")
                items.append(_it("wrong_format_accepted:%s_as_json" % fmt))
            except Exception:
                pass
            try:
                own.seek(0)
                d4 = ProvDocument.deserialize(source=own, format=fmt)
                ctx.count("src:%s:reread_after_failed_attempt" % fmt_name)
                same_doc(fmt, d4, "%s:reread_after_failed_attempt" % fmt_name)
            except Exception as e:
                items.append(exc_item(e, "deserialize:%s:reread_after_failed_attempt" % fmt_name))
        # the order of source kinds rotates from case to case: a detection must not depend on what was read before
        kinds = ["text", "path", "binary", "textfile"]
        rot = len(ops) % 4
        for name in kinds[rot:] + kinds[:rot]:
            for mode in ("auto", "explicit"):
                src = sources[name]()["source"]
                try:
                    d3 = prov.read(src) if mode == "auto" else prov.read(src, format=fmt)
                except Exception as e:
                    items.append(exc_item(e, "read:%s:%s:%s" % (fmt, name, mode)))
                    continue
                ctx.count("read:%s:%s:%s" % (fmt_name, name, mode))
                if d3 is None:
                    items.append(_it("read_returned_none:%s:%s:%s" % (fmt, name, mode)))
                    continue
                same_doc(fmt, d3, "read:%s:%s:%s" % (fmt, name, mode))
        for fh in opened:
            fh.close()
        for x in (path, tpath):
            try:
                os.remove(x)
            except OSError:
                pass
        if len(items) > 4:
            break
    if items:
        return items
    # second phase: the document is EDITED after it has been serialised once (a record added to the document and to a
    # bundle already inside it, a value added to an existing element) - every destination kind must show the document as it
    # is now, and the returned string must read back as it (a serialisation remembered from before the edit may not return)
    from prov.model import ProvElement
    edited = 0
    for scope in [d] + list(d.bundles)[:1]:
        el = next((r for r in scope.get_records(ProvElement) if r.identifier is not None), None)
        if el is None:
            continue
        try:
            ns = el.identifier.namespace
            scope.entity(ns["%s_added_later" % el.identifier.localpart.replace("/", "_").replace("#", "_")[:8]])
            el.add_attributes([(ns["noted_later"], "after")])
            edited += 1
        except Exception as e:
            return [exc_item(e, "edit_after_serialize")]
    if not edited:
        return items
    if why_not_expressible(d):
        return items
    ctx.count("edited_after_serialize")
    want_bag = canon(d)
    want_set = as_sets(canon(d.unified()))
    for fmt in ("json", "xml", "rdf"):
        try:
            c07.deterministic_bnodes()
            s2 = d.serialize(format=fmt)
            c07.deterministic_bnodes()
            t2 = io.StringIO()
            d.serialize(t2, format=fmt)
            c07.deterministic_bnodes()
            b2 = io.BytesIO()
            d.serialize(b2, format=fmt)
        except Exception as e:
            return [exc_item(e, "serialize_after_edit:" + fmt)]
        if not _same_text(fmt, s2, t2.getvalue()):
            items.append(_it("text_differs_after_edit:%s:str_vs_textstream" % fmt))
        if not _same_text(fmt, s2, b2.getvalue().decode("utf-8")):
            items.append(_it("text_differs_after_edit:%s:str_vs_binarystream" % fmt))
        for nm, mk in (("content_str", dict(content=s2)), ("binary", dict(source=io.BytesIO(b2.getvalue())))):
            try:
                same_doc(fmt, ProvDocument.deserialize(format=fmt, **mk), "after_edit:%s:%s" % (fmt, nm))
            except Exception as e:
                items.append(exc_item(e, "deserialize_after_edit:%s:%s" % (fmt, nm)))
    return items
