"""C09 - flattened(), update() and add_bundle() conserve records (stateful pool of documents)."""
import sys
from collections import Counter

from hypothesis import strategies as st
from hypothesis.stateful import rule

from .. import gen, stateful
from ..build import build, content_of, content_canon
from ..canon import canon, diff_canon

ID = "C09"
LEVEL = "exploration"
RULE = ("Hypothesis RuleBasedStateMachine over a pool of up to 5 documents built from random recipes (shared bundle "
        "identifiers, clashing prefixes, different default namespaces at both levels, repeated identifiers). Rules: "
        "new document, d.update(other document), d.update(a bundle of another document), d.add_bundle(bundle-free "
        "document | document with bundles | free ProvBundle, identifier | None | duplicate), d.bundle(id | duplicate), "
        "d.flattened(). Reference model: a multiset of canonical records per container, updated by the stated "
        "conservation law; after every step every pool document must equal its model (strict URI-level multiset "
        "equality), each refusal must be a ProvException leaving d unchanged. Non-trivial = a history with an "
        "update/flatten/add_bundle across different namespace environments (the two documents bind a common prefix to "
        "different URIs or have different default namespaces); distinct by SHA-1 of the history.")
ASSUMPTIONS = [
    "the model is computed from the recipes' intents and the conservation law, never read back from the library",
    "add_bundle of a bundle that already belongs to another document is not exercised (sharing one bundle object between documents is C12's subject)",
]
REQUIRED_CLASSES = {"all": ["op:update", "op:update_bundle", "op:add_bundle:ok", "op:add_bundle:refused_nested",
                            "op:add_bundle:refused_duplicate", "op:add_bundle:refused_no_id", "op:bundle:ok",
                            "op:bundle:refused_duplicate", "op:flatten", "op:mutate_record", "cross_environment", "update:merged_bundle"]}

SHRINK_CAP = {"quick": 150, "thorough": 1500}
BIDS = [{"ns": "http://a/", "local": "b1", "prefix": "ex", "as": "qn"}, {"ns": "http://a/", "local": "b2", "prefix": "p", "as": "qn"},
        {"ns": "http://b/ns#", "local": "b1", "prefix": "ex", "as": "qn"}]


class State:
    def __init__(self):
        self.docs = []
        self.models = []     # [top Counter, {uri: Counter}]
        self.cross = False


def new_state():
    return State()


def history_nontrivial(s, ctx):
    return s.cross


def _it(b, **kw):
    d = {"b": b}
    d.update(kw)
    return d


def _env(d):
    pre = {}
    for c in [d] + list(d.bundles):
        for n in c.namespaces:
            pre.setdefault(n.prefix, set()).add(n.uri)
    dn = {c.get_default_namespace().uri for c in [d] + list(d.bundles) if c.get_default_namespace() is not None}
    return pre, dn


def _cross(a, b):
    pa, da = _env(a)
    pb, db = _env(b)
    clash = any(p in pb and pa[p] != pb[p] for p in pa)
    return clash or (da and db and da != db)


def _check_all(s, items):
    for i, d in enumerate(s.docs):
        got = canon(d)
        want = (s.models[i][0], s.models[i][1])
        if got != want:
            for it in diff_canon(want, got)[:4]:
                it["doc"] = i
                items.append(it)
        if len(items) > 4:
            return


def _qn(name):
    from prov.identifier import Namespace, QualifiedName
    return QualifiedName(Namespace(name["prefix"], name["ns"]), name["local"])


def _pair(s, op):
    n = len(s.docs)
    i = op[1] % n
    j = (i + 1 + op[2] % (n - 1)) % n if n > 1 else i
    return i, j


def apply(s, op, ctx):
    from prov.model import ProvException, ProvBundle
    items = []
    code = op[0]
    if code == "new":
        if len(s.docs) >= 5:
            ctx.count("skipped:pool_full")
            return []
        b = build(op[1])
        c = content_canon(content_of(b))
        s.docs.append(b.doc)
        s.models.append([c[0], c[1]])
        ctx.count("op:new")
    elif not s.docs:
        return []
    elif code == "update":
        i, j = _pair(s, op)
        if i == j or s.docs[i] is s.docs[j]:
            return []
        if _cross(s.docs[i], s.docs[j]):
            s.cross = True
            ctx.count("cross_environment")
        mj = s.models[j]
        s.docs[i].update(s.docs[j])
        mi = s.models[i]
        mi[0] = mi[0] + mj[0]
        for u, bag in mj[1].items():
            if u in mi[1]:
                mi[1][u] = mi[1][u] + bag
                ctx.count("update:merged_bundle")
            else:
                mi[1][u] = Counter(bag)
        ctx.count("op:update")
    elif code == "update_bundle":
        i, j = _pair(s, op)
        bl = list(s.docs[j].bundles)
        if i == j or not bl or s.docs[i] is s.docs[j]:
            return []
        bun = bl[op[3] % len(bl)]
        if _cross(s.docs[i], s.docs[j]):
            s.cross = True
            ctx.count("cross_environment")
        s.docs[i].update(bun)
        s.models[i][0] = s.models[i][0] + s.models[j][1][bun.identifier.uri]
        ctx.count("op:update_bundle")
    elif code == "add_bundle":
        i, j = _pair(s, op)
        if i == j or s.docs[i] is s.docs[j]:
            return []
        d, other = s.docs[i], s.docs[j]
        name = op[3]
        how = op[4]
        uri = None if name is None else name["ns"] + name["local"]
        before = canon(d)
        nb_before = [b.identifier.uri for b in d.bundles]
        if how == "free":
            if other.has_bundles() or name is None:
                return []
            arg = ProvBundle(records=other.get_records(), identifier=_qn(name))
            ident = None
        else:
            arg = other
            ident = None if name is None else _qn(name)
            if how == "doc_uri" and name is not None:
                # the same identifier given as a plain xsd:anyURI Identifier - when one of the two documents declares a
                # namespace it can be compacted with (otherwise it denotes nothing the library could name)
                from prov.identifier import Identifier
                if any(uri.startswith(n.uri) and uri != n.uri for c in (d, other) for n in c.namespaces):
                    ident = Identifier(uri)
                    ctx.count("add_bundle:identifier_as_uri")
        expect = "ok"
        if how != "free" and other.has_bundles():
            expect = "refused_nested"
        elif uri is None:
            expect = "refused_no_id"
        elif uri in s.models[i][1]:
            expect = "refused_duplicate"
        if _cross(d, other):
            s.cross = True
            ctx.count("cross_environment")
        try:
            d.add_bundle(arg, ident)
            outcome = "ok"
        except ProvException:
            outcome = "refused"
        if expect == "ok":
            if outcome != "ok":
                items.append(_it("add_bundle_refused_unexpectedly"))
            else:
                s.models[i][1][uri] = Counter(s.models[j][0])
        else:
            if outcome == "ok":
                items.append(_it("add_bundle_accepted:" + expect))
            elif canon(d) != before or [b.identifier.uri for b in d.bundles] != nb_before:
                items.append(_it("refusal_changed_document:" + expect))
        ctx.count("op:add_bundle:" + expect)
    elif code == "bundle":
        i = op[1] % len(s.docs)
        d = s.docs[i]
        name = op[2]
        uri = name["ns"] + name["local"]
        before = canon(d)
        try:
            nb = d.bundle(_qn(name))
            outcome = "ok"
        except ProvException:
            outcome = "refused"
        if uri in s.models[i][1]:
            if outcome == "ok":
                items.append(_it("bundle_duplicate_accepted"))
            elif canon(d) != before:
                items.append(_it("refusal_changed_document:bundle"))
            ctx.count("op:bundle:refused_duplicate")
        else:
            if outcome != "ok":
                items.append(_it("bundle_refused_unexpectedly"))
            else:
                s.models[i][1][uri] = Counter()
                if nb.identifier is None or nb.identifier.uri != uri:
                    items.append(_it("bundle_identifier_uri"))
            ctx.count("op:bundle:ok")
    elif code == "mutate":
        # a record of a pool document is modified in place (through each public mutator) between the operations
        from prov.identifier import Namespace, QualifiedName
        from ..canon import crecord
        i = op[1] % len(s.docs)
        d = s.docs[i]
        where = [(None, d)] + [(b.identifier.uri, b) for b in d.bundles]
        recs = [(u, r) for u, c in where for r in c.get_records()]
        if not recs:
            return []
        u, rec = recs[op[2] % len(recs)]
        MUT = Namespace("mut", "http://mutation.example/")
        bag = s.models[i][0] if u is None else s.models[i][1][u]
        old = crecord(rec)
        if bag.get(old, 0) < 1:
            items.append(_it("record_not_in_model_before_mutation"))
            return items
        if op[3] % 2 == 0:
            pair = (MUT["added"].uri, ("str", "v%d" % op[4]))
            rec.add_attributes([(MUT["added"], "v%d" % op[4])])
        else:
            pair = ("http://www.w3.org/ns/prov#type", ("qn", MUT["T%d" % (op[4] % 3)].uri))
            rec.add_asserted_type(MUT["T%d" % (op[4] % 3)])
        new = (old[0], old[1], tuple(sorted(set(old[2]) | {pair}, key=repr)))
        bag[old] -= 1
        if bag[old] == 0:
            del bag[old]
        bag[new] += 1
        ctx.count("op:mutate_record")
    elif code == "flatten":
        i = op[1] % len(s.docs)
        d = s.docs[i]
        f = d.flattened()
        total = Counter(s.models[i][0])
        for bag in s.models[i][1].values():
            total = total + bag
        if f.has_bundles():
            items.append(_it("flattened_has_bundles"))
        got = canon(f)
        if got != (total, {}):
            items.extend(diff_canon((total, {}), got)[:4])
        if f is not d and len(s.docs) < 5:
            s.docs.append(f)
            s.models.append([total, {}])
        if s.models[i][1] and len({u for u in s.models[i][1]}) >= 1:
            pre, dn = _env(d)
            if len(dn) > 1 or any(len(v) > 1 for v in pre.values()):
                s.cross = True
                ctx.count("cross_environment")
        ctx.count("op:flatten")
    else:
        raise ValueError(code)
    if not items:
        _check_all(s, items)
    return items


def make_machine(Base):
    small = gen.recipe("json", max_ops=7)

    class Conservation(Base):
        @rule(r=small)
        def new_document(self, r):
            self.do(["new", r])

        @rule(i=st.integers(0, 4), j=st.integers(0, 4))
        def update(self, i, j):
            self.do(["update", i, j])

        @rule(i=st.integers(0, 4), j=st.integers(0, 4), name=st.sampled_from(BIDS))
        def add_bundle_common_name(self, i, j, name):
            self.do(["add_bundle", i, j, name, "doc" if (i + j) % 2 else "doc_uri"])

        @rule(i=st.integers(0, 4), j=st.integers(0, 4), k=st.integers(0, 3))
        def update_with_bundle(self, i, j, k):
            self.do(["update_bundle", i, j, k])

        @rule(i=st.integers(0, 4), j=st.integers(0, 4), name=st.one_of(st.none(), st.sampled_from(BIDS), st.sampled_from(BIDS), gen.name_ref("json", "id", ("qn",))),
              how=st.sampled_from(["doc", "doc_uri", "free"]))
        def add_bundle(self, i, j, name, how):
            self.do(["add_bundle", i, j, name, how])

        @rule(i=st.integers(0, 4), name=st.one_of(st.sampled_from(BIDS), gen.name_ref("json", "id", ("qn",))))
        def bundle(self, i, name):
            self.do(["bundle", i, name])

        @rule(i=st.integers(0, 4))
        def flatten(self, i):
            self.do(["flatten", i])

        @rule(i=st.integers(0, 4), r=st.integers(0, 40), how=st.integers(0, 1), k=st.integers(0, 5))
        def mutate_a_record(self, i, r, how, k):
            self.do(["mutate", i, r, how, k])

    return Conservation


def budget(tier):
    return {"shards": 8, "machines": 200, "steps": 14} if tier == "quick" else {"shards": 16, "machines": 1500, "steps": 20}


def run_stateful(tier, seed, ctx, findings, reported, failures):
    b = budget(tier)
    stateful.run_machine(sys.modules[__name__], make_machine, b["machines"], b["steps"], seed, ctx, findings, reported, failures)


def check(case, ctx):
    return stateful.check_history(sys.modules[__name__], case, ctx)
