"""C01 - PROV-JSON round trip preserves every document exactly."""
import itertools
import json

from hypothesis import strategies as st

from .. import gen
from .. import matrix as mx
from ..build import build
from ..canon import canon, diff_canon

ID = "C01"
LEVEL = "exploration"
RULE = ("Cases are document recipes (lists of public-API calls: namespace declarations, default namespaces, "
        "bundles, records of the 18 kinds with any optional-argument mask, attribute values of every kind) "
        "x json.dump options; an exhaustively enumerated core (kind x optional mask x identified x attribute, "
        "value kind x attribute slot x record class) precedes the random phase. Non-trivial = the document has a "
        "record with an attribute or formal argument AND at least one of {bundle, prefix clash, default namespace, "
        "anonymous relation, repeated identifier, multi-valued attribute, non-string value}; distinct by SHA-1 of the "
        "recipe + options.")
ASSUMPTIONS = [
    "strict comparison (canon) is computed from public accessors only: get_records(), bundles, identifier.uri, attributes",
    "documents are built only through documented public calls; string spellings are used only where the public API "
    "(namespaces / get_default_namespace) says they denote the intended URI",
    "excluded by construction, as the statement says: two ==-equal values of different kind under one attribute, NaN/inf",
]
REQUIRED_CLASSES = {"all": ["has:bundle", "has:default_ns", "has:anon_relation", "has:repeated_id", "opt:ensure_ascii=False"]}

OPTS = [dict(zip(("indent", "sort_keys", "ensure_ascii"), t))
        for t in itertools.product([None, 0, 2], [False, True], [True, False])]


def _printed_bundle_id_collision(case, item):
    """F-C01-1: a bundle is missing after the round trip and the source document has two bundles whose
    identifiers print identically (same prefix:local in their own scopes) while denoting different URIs."""
    if item.get("b") != "bundle_missing":
        return False
    b = build(case)
    printed = [str(x.identifier) for x in b.doc.bundles]
    lost = [str(x.identifier) for x in b.doc.bundles if x.identifier.uri == item.get("where")]
    return bool(lost) and printed.count(lost[0]) > 1


KNOWN_MATCHERS = {"printed_bundle_id_collision": _printed_bundle_id_collision}


def budget(tier):
    return {"shards": 8, "examples": 450} if tier == "quick" else {"shards": 16, "examples": 6000}


def strategy(tier):
    return st.builds(lambda r, o: dict(r, opts=o), gen.recipe("json"), st.sampled_from(OPTS))


def matrix_cases(profile="json"):
    for c in mx.relation_cells(profile):
        yield c
    for c in mx.value_cells(profile):
        yield c


def matrix(tier):  # noqa: F811 (module name reused deliberately as the runner's hook)
    for i, c in enumerate(matrix_cases()):
        yield dict(c, opts=OPTS[i % len(OPTS)])
    # the relation cells again on a document that has been READ before it is written (accessors, lookups, unified())
    for i, c in enumerate(mx.relation_cells("json")):
        yield dict(c, opts=OPTS[i % len(OPTS)], touch=True)


def classify(b, ctx, case):
    """shared classification of a built document; returns the non-trivial flag of C01"""
    st_ = b.stats
    has_bundle = len(b.scopes) > 1
    has_default = any(s.get_default_namespace() is not None for s in b.scopes)
    anon = st_["rec:anon"] > 0
    ids = [m["id"] for ms in b.model for m in ms if m["id"] is not None]
    repeated = len(ids) != len(set(ids))
    multi = False
    nonstr = False
    content = False
    for ms in b.model:
        for m in ms:
            if m["attrs"]:
                content = True
            names = [a for a, _ in set(m["attrs"])]
            if len(names) != len(set(names)):
                multi = True
            if any(v[0] != "str" for _, v in m["attrs"]):
                nonstr = True
    prefixes = {}
    clash = False
    for s in b.scopes:
        for n in s.namespaces:
            if prefixes.setdefault(n.prefix, n.uri) != n.uri:
                clash = True
    for k, flag in (("bundle", has_bundle), ("default_ns", has_default), ("anon_relation", anon),
                    ("repeated_id", repeated), ("multi_valued", multi), ("non_string", nonstr), ("prefix_clash", clash)):
        if flag:
            ctx.count("has:" + k)
    for k, v in st_.items():
        if k.startswith(("kind:", "spell:", "via:", "skipped:", "ref:", "excluded_by_finding:", "op:")):
            ctx.count(k, v)
    for ms in b.model:
        for m in ms:
            for _, v in m["attrs"]:
                ctx.count("value:" + (v[0] if v[0] != "lit" else ("lang" if v[3] else "lit")))
    return content and (has_bundle or has_default or anon or repeated or multi or nonstr or clash)


def check(case, ctx):
    from prov.model import ProvDocument
    b = build(case)
    d = b.doc
    opts = case.get("opts") or {}
    ctx.nontrivial(classify(b, ctx, case))
    for k, v in opts.items():
        ctx.count("opt:%s=%s" % (k, v))
    before = canon(d)
    items = []
    if case.get("touch", len(case["ops"]) % 3 == 0):
        from ..touch import readonly_touch
        readonly_touch(d, len(case["ops"]), foreign_lookups=False)     # reads must not leak into what is written
        ctx.count("touched_before_writing")
    try:
        text = d.serialize(format="json", **opts)
    except Exception as e:  # "writing any document": a failure to write is a violation
        from ..runner import exc_item
        return [exc_item(e, "serialize")]
    try:
        json.loads(text)
    except ValueError as e:
        return [{"b": "invalid_json", "msg": str(e)}]
    if opts.get("ensure_ascii", True) and not text.isascii():
        items.append({"b": "not_ascii"})
    try:
        d2 = ProvDocument.deserialize(content=text, format="json")
    except Exception as e:
        from ..runner import exc_item
        return [exc_item(e, "deserialize")]
    items.extend(diff_canon(before, canon(d2)))
    if items:
        return items
    # second phase (round 7): the document is edited AFTER it has been written once (an entity added to the document and to
    # the first bundle inside it, a value added to an existing identified element); what is written now must read back as
    # the document as it is now - a text remembered from the first write may not come back
    from prov.model import ProvElement
    from ..runner import exc_item
    edited = 0
    for scope in [d] + list(d.bundles)[:1]:
        el = next((r for r in scope.get_records(ProvElement) if r.identifier is not None), None)
        if el is None:
            continue
        try:
            ns = el.identifier.namespace
            scope.entity(ns["added_later"])
            el.add_attributes([(ns["noted_later"], "after")])
            edited += 1
        except Exception as e:
            return [exc_item(e, "edit_after_write")]
    if not edited:
        return items
    ctx.count("edited_after_writing")
    after = canon(d)
    try:
        d3 = ProvDocument.deserialize(content=d.serialize(format="json", **opts), format="json")
    except Exception as e:
        return [exc_item(e, "write_or_read_after_edit")]
    return [dict(i, b="after_edit:" + i.get("b", "?")) for i in diff_canon(after, canon(d3))]
