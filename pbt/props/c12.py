"""C12 - derived documents and copied records share no mutable state with their sources."""
import itertools

from hypothesis import strategies as st

from .. import gen
from ..build import build
from ..canon import snapshot, crecord

ID = "C12"
LEVEL = "exploration"
RULE = ("Cases = document recipe x deriving operation in {record.copy, other.add_record(r), ProvDocument(records=...), "
        "x.update(d), x.add_bundle(d, id), d.unified(), d.flattened() with bundles, deserialize(serialize(d)) as JSON and "
        "XML} x follow-up mutation in {add an attribute value to a record, add a record, add_namespace with a fresh "
        "prefix, add_namespace with a clashing prefix, set_default_namespace, add a bundle, add a record inside a bundle} "
        "x which side is mutated (result or source). The full 9 x 7 x 2 grid is enumerated on fixed seed documents in "
        "every run, then sampled on random recipes. Oracle: the snapshot (ordered strict content, registered namespaces, "
        "default namespace, per bundle the same) of the UNTOUCHED side is identical before and after. Non-trivial = the "
        "mutation really changed the mutated side; distinct by SHA-1 of the case.")
ASSUMPTIONS = [
    "snapshot built from public accessors only (get_records, bundles, namespaces, get_default_namespace)",
    "flattened() of a bundle-free document is documented to return the document itself and is not treated as a derivation",
]
OPS = ["copy", "add_record", "ctor", "update", "add_bundle", "unified", "unified_twice", "flattened", "json", "xml", "graph", "graph_twice"]
MUTS = ["add_attr", "add_value", "set_absent_formal", "add_record", "ns_fresh", "ns_clash", "set_default", "add_bundle", "add_bundle_member"]
REQUIRED_CLASSES = {"all": ["cell:%s:%s:%s" % (o, m, s) for o in OPS for m in MUTS for s in ("result", "source")
                            if not (o == "copy" and m not in ("add_attr", "add_value", "set_absent_formal"))]}

SEED_DOCS = [
    {"profile": "json", "ops": [
        ["ns", 0, "ex", "http://a/"],
        ["rec", 0, "entity", {"ns": "http://a/", "local": "e1", "prefix": "ex", "as": "str"}, {}, [[{"ns": "http://a/", "local": "k", "prefix": "ex", "as": "str"}, {"k": "int", "v": 1}]], "factory"],
        ["rec", 0, "entity", {"ns": "http://a/", "local": "e1", "prefix": "ex", "as": "str"}, {}, [[{"ns": "http://a/", "local": "k2", "prefix": "ex", "as": "str"}, {"k": "str", "v": "x"}]], "factory"],
        ["rec", 0, "activity", {"ns": "http://a/", "local": "a1", "prefix": "ex", "as": "str"}, {}, [], "factory"],
        ["rec", 0, "generation", None, {"entity": {"rec": 0}, "activity": {"rec": 1}}, [], "factory"],
        ["bundle", {"ns": "http://a/", "local": "b1", "prefix": "ex", "as": "str"}, "bundle"],
        ["rec", 1, "agent", {"ns": "http://b/ns#", "local": "ag", "prefix": "p", "as": "qn"}, {}, [], "factory"],
    ]},
    {"profile": "json", "ops": [
        ["default", 0, "http://d.org/"],
        ["rec", 0, "entity", {"ns": "http://d.org/", "local": "e1", "prefix": "", "as": "bare"}, {}, [], "factory"],
        ["bundle", {"ns": "http://d.org/", "local": "b1", "prefix": "", "as": "bare"}, "bundle"],
        ["default", 1, "http://d.org/"],
        ["rec", 1, "entity", {"ns": "http://d.org/", "local": "e2", "prefix": "", "as": "bare"}, {}, [], "factory"],
    ]},
    # a bundle whose records cannot be unified (two start times for one activity): unified() must refuse - and if it
    # ever does return something, that something must still be independent of the source
    {"profile": "json", "ops": [
        ["ns", 0, "ex", "http://a/"],
        ["rec", 0, "entity", {"ns": "http://a/", "local": "e1", "prefix": "ex", "as": "str"}, {}, [], "factory"],
        ["bundle", {"ns": "http://a/", "local": "b1", "prefix": "ex", "as": "str"}, "bundle"],
        ["rec", 1, "activity", {"ns": "http://a/", "local": "a1", "prefix": "ex", "as": "str"}, {"startTime": {"t": "2020-01-01T00:00:00", "as": "dt"}}, [], "factory"],
        ["rec", 1, "activity", {"ns": "http://a/", "local": "a1", "prefix": "ex", "as": "str"}, {"startTime": {"t": "2021-01-01T00:00:00", "as": "dt"}}, [], "factory"],
    ]},
]


def budget(tier):
    return {"shards": 8, "examples": 400} if tier == "quick" else {"shards": 16, "examples": 5000}


def strategy(tier):
    return st.builds(lambda r, o, m, s, k: {"recipe": r, "op": o, "mut": m, "side": s, "sel": k},
                     gen.recipe("xml", max_ops=9), st.sampled_from(OPS), st.sampled_from(MUTS),
                     st.sampled_from(["result", "source"]), st.integers(0, 20))


def matrix(tier):
    for r, o, m, s in itertools.product(SEED_DOCS, OPS, MUTS, ("result", "source")):
        for sel in (range(6) if o in ("copy", "add_record") else (0,)):     # copy, add_record: one cell per record of the seed document
            yield {"recipe": r, "op": o, "mut": m, "side": s, "sel": sel}


def _it(b, **kw):
    d = {"b": b}
    d.update(kw)
    return d


def _snap(x):
    from prov.model import ProvRecord
    if isinstance(x, ProvRecord):
        return crecord(x)
    return snapshot(x)


def derive(d, op, sel, ctx):
    """-> (source object, result object, document to mutate on the source side, document to mutate on the result side)"""
    if sel % 2:
        from ..touch import readonly_touch
        readonly_touch(d, sel, foreign_lookups=False)     # a document that has been read before (accessors, lookups)
    from prov.model import ProvDocument, ProvException
    from prov.identifier import Namespace, QualifiedName
    recs = [r for c in [d] + list(d.bundles) for r in c.get_records()]
    if op == "copy":
        if not recs:
            return None
        r = recs[sel % len(recs)]
        return r, r.copy()
    if op == "add_record":
        if not recs:
            return None
        other = ProvDocument()
        other.add_record(recs[sel % len(recs)])
        return d, other
    if op == "ctor":
        return d, ProvDocument(records=d.get_records())
    if op == "update":
        x = ProvDocument()
        x.update(d)
        return d, x
    if op == "add_bundle":
        src = d
        if d.has_bundles():
            src = d.flattened()      # a bundle-free document, itself freshly derived: observe it as the source
        x = ProvDocument()
        x.add_bundle(src, QualifiedName(Namespace("ab", "http://addbundle/"), "b"))
        return src, x
    if op == "unified":
        try:
            return d, d.unified()
        except ProvException:
            return None
    if op == "unified_twice":
        # deriving from an already derived document must again give an independent one
        try:
            u = d.unified()
            return u, u.unified()
        except ProvException:
            return None
    if op == "flattened":
        if not d.has_bundles():
            return None
        return d, d.flattened()
    if op == "json":
        return d, ProvDocument.deserialize(content=d.serialize(format="json"), format="json")
    if op == "xml":
        from ..xmlx import why_not_expressible
        if why_not_expressible(d):
            return None
        return d, ProvDocument.deserialize(content=d.serialize(format="xml"), format="xml")
    if op in ("graph", "graph_twice"):
        # graph_to_prov builds its document with add_record: the result shares nothing with the document the graph
        # was made from, nor with another document converted from the same graph
        from prov.graph import prov_to_graph, graph_to_prov
        try:
            g = prov_to_graph(d)
        except ProvException:
            return None
        if op == "graph":
            return d, graph_to_prov(g)
        return graph_to_prov(g), graph_to_prov(g)
    raise ValueError(op)


def _set_absent_formal(r, sel):
    """give the record a formal argument it does not have yet (an optional time / reference)"""
    import datetime
    from prov.model import PROV_ATTR_TIME, PROV_ATTR_STARTTIME, PROV_ATTR_ENDTIME
    from prov.identifier import Namespace
    have = {a for a, _ in r.attributes}
    for a in r.FORMAL_ATTRIBUTES:
        if a not in have:
            if a in (PROV_ATTR_TIME, PROV_ATTR_STARTTIME, PROV_ATTR_ENDTIME):
                r.add_attributes([(a, datetime.datetime(2020, 1, 2, 3, 4, sel % 60))])
            else:
                r.add_attributes([(a, Namespace("mutns", "http://mutation/")["formal%d" % sel])])
            return True
    return False


def _add_value(r, sel):
    formal = set(r.FORMAL_ATTRIBUTES)
    names = sorted({a for a, _ in r.attributes if a not in formal}, key=str)
    if not names:
        return False
    r.add_attributes([(names[sel % len(names)], "another-value-%d" % sel)])
    return True


def mutate(x, mut, sel):
    """apply the mutation to a document or record; returns False when not applicable"""
    from prov.model import ProvRecord, ProvException
    from prov.identifier import Namespace, QualifiedName
    NEW = Namespace("mutns", "http://mutation/")
    if isinstance(x, ProvRecord):
        if mut == "set_absent_formal":
            return _set_absent_formal(x, sel)
        if mut == "add_value":
            return _add_value(x, sel)
        if mut != "add_attr":
            return False
        x.add_attributes([(NEW["added"], "added-%d" % sel)])
        return True
    if mut == "add_value":
        # a further value under an attribute name the record already carries (shared value sets would show here)
        recs = [r for c in [x] + list(x.bundles) for r in c.get_records()]
        recs = recs[sel % len(recs):] + recs[:sel % len(recs)] if recs else []
        for r in recs:
            if _add_value(r, sel):
                return True
        return False
    if mut == "set_absent_formal":
        recs = [r for c in [x] + list(x.bundles) for r in c.get_records()]
        recs = recs[sel % len(recs):] + recs[:sel % len(recs)] if recs else []
        for r in recs:
            if _set_absent_formal(r, sel):
                return True
        return False
    if mut == "add_attr":
        recs = [r for c in [x] + list(x.bundles) for r in c.get_records()]
        if not recs:
            return False
        recs[sel % len(recs)].add_attributes([(NEW["added"], "added-%d" % sel)])
    elif mut == "add_record":
        x.entity(NEW["newrec%d" % sel], {NEW["k"]: sel})
    elif mut == "ns_fresh":
        x.add_namespace("fresh%d" % sel, "http://fresh/%d/" % sel)
    elif mut == "ns_clash":
        pre = sorted(n.prefix for n in x.namespaces)
        p = pre[sel % len(pre)] if pre else "ex"
        x.add_namespace(p, "http://clash/%d/" % sel)
    elif mut == "set_default":
        if x.get_default_namespace() is not None:
            return False
        x.set_default_namespace("http://newdefault/")
    elif mut == "add_bundle":
        try:
            x.bundle(NEW["newbundle%d" % sel])
        except ProvException:
            return False
    elif mut == "add_bundle_member":
        bl = list(x.bundles)
        if not bl:
            bl = [x.bundle(NEW["bundle_for_member"])]
        bl[sel % len(bl)].entity(NEW["member%d" % sel])
    else:
        raise ValueError(mut)
    return True


def check(case, ctx):
    b = build(case["recipe"])
    pair = derive(b.doc, case["op"], case["sel"], ctx)
    if pair is None:
        ctx.count("not_applicable:" + case["op"])
        return []
    source, result = pair
    items = []
    if result is source:
        items.append(_it("result_is_source:" + case["op"]))
        return items
    mutated, untouched = (result, source) if case["side"] == "result" else (source, result)
    before_u, before_m = _snap(untouched), _snap(mutated)
    if not mutate(mutated, case["mut"], case["sel"]):
        ctx.count("not_applicable_mutation:" + case["mut"])
        return []
    changed = _snap(mutated) != before_m
    ctx.count("cell:%s:%s:%s" % (case["op"], case["mut"], case["side"]))
    ctx.nontrivial(changed)
    after_u = _snap(untouched)
    if after_u != before_u:
        what = "content"
        if not isinstance(after_u, tuple) or len(after_u) != 4:
            what = "record"
        elif after_u[0] == before_u[0]:
            what = "namespaces"
        items.append(_it("aliasing:%s:%s" % (case["op"], what), mutation=case["mut"], side_mutated=case["side"]))
    return items
