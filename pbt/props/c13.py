"""C13 - exporting never mutates the document and is repeatable."""
import io
import itertools

from hypothesis import strategies as st

from .. import gen
from ..build import build
from ..canon import snapshot
from ..xmlx import why_not_expressible

ID = "C13"
LEVEL = "exploration"
RULE = ("Cases = document recipe x random sequence (1-8, repetition allowed) of export calls out of 40: serialize to "
        "json (8 option sets) / xml (force_types) / rdf (default TriG and turtle) / provn, to a returned string, a text "
        "stream and a binary stream; get_provn; str() of every record; prov_to_graph; prov_to_dot(...).to_string() under "
        "6 option sets; == and != against a twin; hash of every record; unified(); flattened(). Oracle: after EVERY call "
        "(also one that raises) the snapshot of the document (ordered strict content, record order, registered "
        "namespaces and default namespace of the document and of every bundle, bundle order) is unchanged; every text "
        "export called twice returns the identical string; a twin document built by replaying the recipe returns the "
        "identical string for PROV-JSON, PROV-XML and PROV-N and an isomorphic graph for RDF. Non-trivial = at least two "
        "different exporters on a document with a relation and a bundle or default namespace; distinct by SHA-1.")
ASSUMPTIONS = [
    "snapshot is computed from public accessors; exporters are called through their public entry points only",
    "RDF isomorphism is decided by rdflib.compare.isomorphic on the parsed outputs (sampled: documents with <= 6 records)",
    "an exporter may raise on a document it cannot express (counted); it must still leave the document unchanged",
]

JSON_OPTS = [dict(zip(("indent", "sort_keys", "ensure_ascii"), t)) for t in itertools.product([None, 2], [False, True], [True, False])]
DOT_OPTS = [dict(), dict(use_labels=True), dict(show_nary=False), dict(show_element_attributes=False, show_relation_attributes=False),
            dict(direction="LR", use_labels=True), dict(direction="XX")]
EXPORTS = ([("json", i, dest) for i in range(len(JSON_OPTS)) for dest in ("str",)] +
           [("json", 0, "text"), ("json", 3, "binary")] +
           [("xml", ft, dest) for ft in (0, 1) for dest in ("str", "text", "binary")] +
           [("rdf", fmt, dest) for fmt in ("trig", "turtle") for dest in ("str", "binary")] +
           [("provn", 0, dest) for dest in ("str", "text", "binary")] +
           [("touch", 0, ""), ("touch", 1, ""), ("get_provn", 0, ""), ("str_records", 0, ""), ("graph", 0, ""), ("eq", 0, ""), ("ne", 0, ""),
            ("hash", 0, ""), ("unified", 0, ""), ("flattened", 0, "")] +
           [("dot", i, "") for i in range(len(DOT_OPTS))])
REQUIRED_CLASSES = {"all": ["export:" + e for e in sorted({x[0] for x in EXPORTS})] + ["twin_text_compared", "rdf_isomorphic_checked", "repeat_compared"]}


def budget(tier):
    return {"shards": 8, "examples": 600} if tier == "quick" else {"shards": 16, "examples": 3000}


def strategy(tier):
    return st.builds(lambda r, s: {"recipe": r, "seq": s}, gen.recipe("xml", max_ops=10),
                     st.lists(st.integers(0, len(EXPORTS) - 1), min_size=1, max_size=8))


def matrix(tier):
    docs = [
        {"profile": "xml", "ops": [["ns", 0, "ex", "http://a/"], ["default", 0, "http://d.org/"],
                                   ["rec", 0, "entity", {"ns": "http://a/", "local": "e1", "prefix": "ex", "as": "str"}, {}, [[gen.prov_name("type"), {"k": "qn", "ns": "http://www.w3.org/ns/prov#", "local": "Plan", "prefix": "prov"}], [gen.prov_name("label"), {"k": "str", "v": "lbl"}]], "factory"],
                                   ["rec", 0, "activity", {"ns": "http://d.org/", "local": "a1", "prefix": "", "as": "bare"}, {"startTime": {"t": "2012-01-01T00:00:00", "as": "dt"}}, [], "factory"],
                                   ["rec", 0, "generation", None, {"entity": {"rec": 0}, "activity": {"rec": 1}, "time": {"t": "2012-01-01T00:00:00+01:00", "as": "dt"}}, [[{"ns": "http://b/ns#", "local": "k", "prefix": "q", "as": "qn"}, {"k": "int", "v": 3}]], "factory"],
                                   ["bundle", {"ns": "http://a/", "local": "b1", "prefix": "ex", "as": "str"}, "bundle"],
                                   ["rec", 1, "agent", {"ns": "http://c.org/", "local": "ag", "prefix": "c", "as": "qn"}, {}, [], "factory"],
                                   ["rec", 1, "agent", {"ns": "http://c.org/", "local": "ag", "prefix": "c", "as": "qn"}, {}, [[gen.prov_name("type"), {"k": "qn", "ns": "http://www.w3.org/ns/prov#", "local": "Person", "prefix": "prov"}]], "factory"]]},
    ]
    for d in docs:
        for i in range(len(EXPORTS)):
            yield {"recipe": d, "seq": [i, i], "cell": list(EXPORTS[i])}


def _it(b, **kw):
    d = {"b": b}
    d.update(kw)
    return d


def do_export(d, code, twin):
    """returns text (or None when the export has no text form)"""
    kind, opt, dest = code
    if kind in ("json", "xml", "rdf", "provn"):
        kw = {}
        if kind == "json":
            kw = dict(JSON_OPTS[opt])
        elif kind == "xml":
            kw = {"force_types": bool(opt)}
        elif kind == "rdf" and opt != "trig":
            kw = {"rdf_format": opt}
        if dest == "str":
            return d.serialize(format=kind, **kw)
        if dest == "text":
            s = io.StringIO()
            d.serialize(s, format=kind, **kw)
            return s.getvalue()
        s = io.BytesIO()
        d.serialize(s, format=kind, **kw)
        return s.getvalue().decode("utf-8")
    if kind == "touch":
        from ..touch import readonly_touch
        readonly_touch(d, opt, foreign_lookups=False)
        return None
    if kind == "get_provn":
        return d.get_provn()
    if kind == "str_records":
        return "\n".join(str(r) for c in [d] + list(d.bundles) for r in c.get_records())
    if kind == "graph":
        from prov.graph import prov_to_graph
        g = prov_to_graph(d)
        return None
    if kind == "dot":
        from prov.dot import prov_to_dot
        return prov_to_dot(d, **DOT_OPTS[opt]).to_string()
    if kind == "eq":
        d == twin
        twin == d
        return None
    if kind == "ne":
        d != twin
        return None
    if kind == "hash":
        for c in [d] + list(d.bundles):
            for r in c.get_records():
                hash(r)
        return None
    if kind == "unified":
        d.unified()
        return None
    if kind == "flattened":
        d.flattened()
        return None
    raise ValueError(kind)


def check(case, ctx):
    from prov import Error as ProvError
    b = build(case["recipe"])
    d = b.doc
    twin = build(case["recipe"]).doc
    items = []
    base = snapshot(d)
    if snapshot(twin) != base:
        items.append(_it("twin_differs_before_any_export"))
        return items
    kinds = set()
    first_text = {}
    n_rec = sum(len(ms) for ms in b.model)
    for sel in case["seq"]:
        code = EXPORTS[sel % len(EXPORTS)]
        kind = code[0]
        if kind == "xml" and why_not_expressible(d):
            ctx.count("skipped:xml_not_expressible")
            continue
        kinds.add(kind)
        ctx.count("export:" + kind)
        text = text2 = None
        failed = None
        try:
            text = do_export(d, code, twin)
        except Exception as e:  # noqa - an exporter may refuse a document; purity is still required
            failed = e
            ctx.count("export_raised:%s:%s" % (kind, type(e).__name__))
        after = snapshot(d)
        if after != base:
            what = "content" if after[0] != base[0] else "namespaces"
            items.append(_it("mutated_by:%s:%s" % (kind, what), raised=type(failed).__name__ if failed else None))
            return items
        if failed is not None:
            continue
        if text is not None:
            try:
                text2 = do_export(d, code, twin)
            except Exception as e:  # noqa
                items.append(_it("second_call_raises:%s" % kind, exc=type(e).__name__))
                return items
            ctx.count("repeat_compared")
            # the same export earlier in this sequence (with other exporters in between) must have given the same text
            if kind != "rdf":
                if code in first_text and first_text[code] != text:
                    items.append(_it("text_changed_after_other_exports:%s" % kind))
                first_text.setdefault(code, text)
            if kind == "rdf":
                if text2 != text and not _iso(text, text2, code[1]):
                    items.append(_it("rdf_not_repeatable"))
            elif text2 != text:
                items.append(_it("not_repeatable:%s" % kind))
            if kind in ("json", "xml", "provn", "get_provn", "str_records"):
                t3 = do_export(twin, code, d)
                ctx.count("twin_text_compared")
                if t3 != text:
                    items.append(_it("twin_text_differs:%s" % kind))
            elif kind == "rdf" and n_rec <= 6:
                t3 = do_export(twin, code, d)
                ctx.count("rdf_isomorphic_checked")
                if not _iso(text, t3, code[1]):
                    items.append(_it("twin_rdf_not_isomorphic"))
            if snapshot(d) != base or snapshot(twin) != base:
                items.append(_it("mutated_by_second_call:%s" % kind))
            if items:
                return items
    # after the whole sequence the document must still print exactly like a fresh twin that was never exported
    if not items:
        fresh = build(case["recipe"]).doc
        for code in (("get_provn", 0, ""), ("json", 0, "str"), ("xml", 0, "str")):
            if code[0] == "xml" and why_not_expressible(d):
                continue
            try:
                if do_export(d, code, twin) != do_export(fresh, code, twin):
                    items.append(_it("prints_differently_after_exports:%s" % code[0]))
            except Exception as e:  # noqa
                items.append(_it("export_fails_after_exports:%s" % code[0], exc=type(e).__name__))
        ctx.count("final_fresh_twin_compared")
    has_rel = any(not m["type"].endswith(("#Entity", "#Agent", "#Activity")) for ms in b.model for m in ms)
    ctx.nontrivial(len(kinds) >= 2 and has_rel and (len(b.scopes) > 1 or any(s.get_default_namespace() is not None for s in b.scopes)))
    return items


def _iso(t1, t2, fmt):
    import rdflib
    from rdflib.compare import isomorphic, to_isomorphic
    g1 = rdflib.ConjunctiveGraph()
    g2 = rdflib.ConjunctiveGraph()
    try:
        g1.parse(data=t1, format=fmt)
        g2.parse(data=t2, format=fmt)
    except Exception:  # noqa - output rdflib itself cannot read (document outside the RDF-expressible space): undecidable here
        return True
    if len(list(g1.contexts())) != len(list(g2.contexts())):
        return False
    q1 = rdflib.Graph()
    q2 = rdflib.Graph()
    for s, p, o, c in g1.quads():
        q1.add((s, p, o))
    for s, p, o, c in g2.quads():
        q2.add((s, p, o))
    return isomorphic(q1, q2)
