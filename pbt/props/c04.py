"""C04 - document / bundle / record equality is an equivalence coinciding with content equivalence."""
import copy
import json
import os
import subprocess
import sys
from fractions import Fraction
import datetime

from hypothesis import strategies as st

from .. import gen, spec
from ..build import build, content_of, construct
from ..canon import crecord

ID = "C04"
LEVEL = "exploration"
RULE = ("Pairs (and chains) of documents: d built from a recipe through the public API, and d' obtained by "
        "content-preserving transformations (rebuild from abstract content in another record order with other prefixes, "
        "duplicate insertion, rebuild via update(), PROV-JSON round trip) or by ONE content-changing edit of the abstract "
        "content (alter/add/remove an attribute value, change a formal argument, change/remove/add an identifier, "
        "add/remove a record, add/remove a bundle incl. an empty one, add/remove a bundle member, swap the record type), "
        "plus independent pairs from a tiny alphabet. Oracle: reference relation computed from the abstract contents "
        "(sets, numbers by value, zoned datetimes by instant), asserted for ==, != in both argument orders, reflexivity, "
        "transitivity on chains, for bundles and for all record pairs (with hash agreement); prov-compare exit status on "
        "a sample. Non-trivial = the two sides were built differently (transform) or differ by exactly one edit; "
        "distinct by SHA-1 of the case.")
ASSUMPTIONS = [
    "reference relation = the statement's: same set of records (type, identifier URI, attribute name URIs, values) in the same "
    "bundles; 1/True/1.0 identified, aware datetimes compared as instants; anyURI values and qualified-name values are different values",
    "edits producing two ==-equal values of different kind under one attribute are discarded (excluded by the statement)",
]
TRANSFORMS = ["rebuild", "dup", "update", "json", "rebuild+json", "dup+rebuild"]
EDITS = ["uri_qn_swap", "alter_value", "add_value", "remove_value", "change_formal", "change_id", "drop_id", "add_record",
         "remove_record", "add_empty_bundle", "add_bundle", "remove_bundle", "add_member", "remove_member", "swap_type"]
REQUIRED_CLASSES = {"all": ["edit:" + e for e in EDITS] + ["transform:" + t for t in TRANSFORMS] +
                    ["pair:equal", "pair:different", "records:eq_pairs", "mode:mutate_after_compare", "touched_before_compare"]}

SWAPS = {"Entity": "Agent", "Agent": "Entity", "Generation": "Invalidation", "Invalidation": "Usage",
         "Usage": "Generation", "Start": "End", "End": "Start", "Attribution": "Membership",
         "Specialization": "Alternate", "Alternate": "Specialization", "Communication": "Influence",
         "Influence": "Communication", "Activity": "Entity"}


def budget(tier):
    return {"shards": 8, "examples": 500} if tier == "quick" else {"shards": 16, "examples": 6000}


def _tiny_recipe():
    """independent documents from a deliberately tiny alphabet, so that accidental equality occurs"""
    n = {"ns": "http://a/", "local": "e1", "prefix": "ex", "as": "qn"}
    n2 = {"ns": "http://a/", "local": "e2", "prefix": "ex", "as": "qn"}
    val = st.sampled_from([{"k": "int", "v": 1}, {"k": "bool", "v": True}, {"k": "float", "v": (1.0).hex()},
                           {"k": "str", "v": "1"}, {"k": "int", "v": 2}])
    attr = st.sampled_from([{"ns": "http://a/", "local": "k", "prefix": "ex", "as": "qn"}])
    rec = st.one_of(
        st.builds(lambda i, a: ["rec", 0, "entity", i, {}, a, "factory"], st.sampled_from([n, n2]),
                  st.lists(st.tuples(attr, val).map(list), max_size=1)),
        st.builds(lambda i, s: ["rec", s, "generation", i, {"entity": {"name": n}}, [], "factory"],
                  st.sampled_from([None, n2]), st.integers(0, 1)),
        st.just(["bundle", n2, "bundle"]),
    )
    return st.lists(rec, max_size=3).map(lambda ops: {"profile": "json", "ops": ops})


def strategy(tier):
    base = gen.recipe("json", max_ops=10)
    sel = st.lists(st.integers(0, 50), min_size=6, max_size=6)
    t_case = st.builds(lambda r, t, o: {"mode": "T", "recipe": r, "t": t, "order": o},
                       base, st.sampled_from(TRANSFORMS), sel)
    e_case = st.builds(lambda r, e, o, v, nm: {"mode": "E", "recipe": r, "edit": e, "sel": o, "value": v, "name": nm},
                       base, st.sampled_from(EDITS), sel, gen.value("json", ["str", "int", "float", "bool", "dt", "uri", "qn", "lang", "lit"]),
                       gen.name_ref("json", "id", ("qn",)))
    p_case = st.builds(lambda a, b: {"mode": "P", "recipe": a, "recipe2": b}, _tiny_recipe(), _tiny_recipe())
    # M: compare (which hashes every record), THEN mutate through every public mutator, then compare with a document
    # built directly from the final content - stale cached hashes / equality state would show up here
    from . import c05
    m_case = st.builds(lambda r, f, o: {"mode": "M", "recipe": r, "follow": f, "order": o}, base,
                       st.lists(c05.follow_up_op(), min_size=1, max_size=4), sel)
    return st.one_of(t_case, e_case, e_case, p_case, m_case)


# ---------------------------------------------------------------------------- reference relation
def lval(cv):
    cv = tuple(cv)
    k = cv[0]
    if k in ("int", "bool"):
        return ("num", Fraction(int(cv[1])))
    if k == "float":
        return ("num", Fraction(float.fromhex(cv[1])))
    if k == "dt":
        if cv[2] is None:
            return ("naive", cv[1])
        d = datetime.datetime.fromisoformat(cv[1]) - datetime.timedelta(seconds=cv[2])
        return ("instant", d.isoformat())
    return cv


def lrec(r):
    return (r["type"], r["id"], frozenset((a, lval(v)) for a, v in r["attrs"]))


def lossy(content):
    return (frozenset(lrec(r) for r in content["doc"]),
            tuple(sorted((u, frozenset(lrec(r) for r in recs)) for u, recs in content["bundles"])))


def kind_clash(content):
    """two values under one attribute of one record that are == but of different kind/exact form"""
    for recs in [content["doc"]] + [r for _, r in content["bundles"]]:
        for r in recs:
            seen = {}
            for a, v in r["attrs"]:
                key = (a, lval(v))
                if key in seen and seen[key] != tuple(v):
                    return True
                seen[key] = tuple(v)
    return False


# ---------------------------------------------------------------------------- edits
def _containers(content):
    return [content["doc"]] + [recs for _, recs in content["bundles"]]


def apply_edit(content, edit, sel, value, name):
    """returns the edited deep copy, or None when the edit is not applicable to this content"""
    from ..build import mval, name_uri
    c = copy.deepcopy(content)
    conts = _containers(c)
    allrecs = [(ci, ri) for ci, recs in enumerate(conts) for ri in range(len(recs))]
    formal_names = {spec.PROV_NS + a for k in spec.KINDS for a, _ in spec.formal_args(k)}
    new_val = list(mval(value))
    new_uri = name_uri(name)

    def pick(pred=lambda r: True):
        cands = [(ci, ri) for ci, ri in allrecs if pred(conts[ci][ri])]
        if not cands:
            return None
        ci, ri = cands[sel[0] % len(cands)]
        return conts[ci][ri]

    if edit == "uri_qn_swap":
        r = pick(lambda r: any(a not in formal_names and v[0] in ("uri", "qn") for a, v in r["attrs"]))
        if r is None:
            return None
        idx = [i for i, (a, v) in enumerate(r["attrs"]) if a not in formal_names and v[0] in ("uri", "qn")]
        i = idx[sel[1] % len(idx)]
        a, v = r["attrs"][i]
        # the same URI text under another value kind: anyURI <-> qualified name <-> plain string spelling the URI
        kinds = [k for k in ("uri", "qn", "str") if k != v[0]]
        r["attrs"][i] = [a, [kinds[sel[2] % 2], v[1]]]
    elif edit == "alter_value":
        r = pick(lambda r: any(a not in formal_names for a, _ in r["attrs"]))
        if r is None:
            return None
        idx = [i for i, (a, _) in enumerate(r["attrs"]) if a not in formal_names]
        i = idx[sel[1] % len(idx)]
        if lval(r["attrs"][i][1]) == lval(new_val):
            return None
        r["attrs"][i] = [r["attrs"][i][0], new_val]
    elif edit == "add_value":
        r = pick()
        if r is None:
            return None
        names = [a for a, _ in r["attrs"] if a not in formal_names] + [new_uri + "_attr"]
        r["attrs"].append([names[sel[1] % len(names)], new_val])
    elif edit == "remove_value":
        r = pick(lambda r: any(a not in formal_names for a, _ in r["attrs"]))
        if r is None:
            return None
        idx = [i for i, (a, _) in enumerate(r["attrs"]) if a not in formal_names]
        del r["attrs"][idx[sel[1] % len(idx)]]
    elif edit == "change_formal":
        r = pick(lambda r: any(a in formal_names for a, _ in r["attrs"]))
        if r is None:
            return None
        idx = [i for i, (a, _) in enumerate(r["attrs"]) if a in formal_names]
        i = idx[sel[1] % len(idx)]
        a, v = r["attrs"][i]
        if v[0] == "qn":
            r["attrs"][i] = [a, ["qn", new_uri if new_uri != v[1] else new_uri + "_2"]]
        else:
            r["attrs"][i] = [a, ["dt", "2001-02-03T04:05:06" if v[1] != "2001-02-03T04:05:06" else "2001-02-03T04:05:07", v[2]]]
    elif edit == "change_id":
        r = pick()
        if r is None:
            return None
        r["id"] = new_uri if r["id"] != new_uri else new_uri + "_2"
    elif edit == "drop_id":
        r = pick(lambda r: r["id"] is not None and not r["type"].endswith(("#Entity", "#Activity", "#Agent")))
        if r is None:
            return None
        r["id"] = None
    elif edit == "add_record":
        ci = sel[0] % len(conts)
        conts[ci].append({"type": spec.PROV_NS + "Entity", "id": new_uri, "attrs": [[new_uri + "_attr", new_val]]})
    elif edit == "remove_record":
        if not allrecs:
            return None
        ci, ri = allrecs[sel[0] % len(allrecs)]
        del conts[ci][ri]
    elif edit == "add_empty_bundle":
        if any(u == new_uri for u, _ in c["bundles"]):
            return None
        c["bundles"].append([new_uri, []])
    elif edit == "add_bundle":
        if any(u == new_uri for u, _ in c["bundles"]):
            return None
        c["bundles"].append([new_uri, [{"type": spec.PROV_NS + "Entity", "id": new_uri + "_m", "attrs": []}]])
    elif edit == "remove_bundle":
        if not c["bundles"]:
            return None
        del c["bundles"][sel[0] % len(c["bundles"])]
    elif edit == "add_member":
        if not c["bundles"]:
            return None
        c["bundles"][sel[0] % len(c["bundles"])][1].append(
            {"type": spec.PROV_NS + "Agent", "id": new_uri, "attrs": [[new_uri + "_attr", new_val]]})
    elif edit == "remove_member":
        cands = [b for b in c["bundles"] if b[1]]
        if not cands:
            return None
        b = cands[sel[0] % len(cands)]
        del b[1][sel[1] % len(b[1])]
    elif edit == "swap_type":
        r = pick(lambda r: r["type"].rsplit("#", 1)[1] in SWAPS)
        if r is None:
            return None
        old = r["type"].rsplit("#", 1)[1]
        if old == "Activity" and any(a in formal_names for a, _ in r["attrs"]):
            return None
        r["type"] = spec.PROV_NS + SWAPS[old]
        if r["id"] is None and SWAPS[old] in ("Entity", "Agent", "Activity"):
            return None
    else:
        raise ValueError(edit)
    return c


# ---------------------------------------------------------------------------- the relation under test
def _it(b, **kw):
    d = {"b": b}
    d.update(kw)
    return d


def compare(a, b, ref, what, items):
    """a, b: documents / bundles; ref: expected equality"""
    try:
        ab, ba = (a == b), (b == a)
        nab, nba = (a != b), (b != a)
    except Exception as e:  # noqa
        items.append(_it("eq_raises:%s" % type(e).__name__, what=what, msg=str(e)[:200]))
        return
    if ab != ref:
        items.append(_it("%s:eq_%s_expected_%s" % (what, ab, ref), order="a==b"))
    if ba != ref:
        items.append(_it("%s:eq_%s_expected_%s" % (what, ba, ref), order="b==a"))
    if nab != (not ref) or nba != (not ref):
        items.append(_it("%s:ne_disagrees" % what, ne=[nab, nba], ref=ref))


def compare_all(da, ca, db, cb, items, ctx, touch=None):
    if touch is not None:
        # read-only queries (lookups of absent identifiers, args, unified(), ...) must not change what == says
        from ..touch import readonly_touch
        readonly_touch(da, touch)
        if touch % 3 == 0:
            readonly_touch(db, touch)
        ctx.count("touched_before_compare")
    la, lb = lossy(ca), lossy(cb)
    ref = la == lb
    ctx.count("pair:equal" if ref else "pair:different")
    compare(da, db, ref, "doc", items)
    # reflexivity
    for d in (da, db):
        if not (d == d) or (d != d):
            items.append(_it("doc:not_reflexive"))
    # bundles present on both sides
    ba = {x.identifier.uri: x for x in da.bundles}
    bb = {x.identifier.uri: x for x in db.bundles}
    dla, dlb = dict(la[1]), dict(lb[1])
    for u in ba:
        if u in bb and u in dla and u in dlb:
            compare(ba[u], bb[u], dla[u] == dlb[u], "bundle", items)
            ctx.count("bundles:compared")
    # records: all pairs of the two documents (bounded)
    ra = [(r, crecord(r)) for r in list(da.get_records())[:8]]
    rb = [(r, crecord(r)) for r in list(db.get_records())[:8]]
    for r1, c1 in ra:
        for r2, c2 in rb:
            rref = _lrec_from_canon(c1) == _lrec_from_canon(c2)
            e12, e21 = (r1 == r2), (r2 == r1)
            if e12 != rref or e21 != rref:
                items.append(_it("record:eq_%s_%s_expected_%s" % (e12, e21, rref), r1=str(r1)[:120], r2=str(r2)[:120]))
            elif e12:
                ctx.count("records:eq_pairs")
                if hash(r1) != hash(r2):
                    items.append(_it("record:equal_but_hash_differs", r1=str(r1)[:120], r2=str(r2)[:120]))
            if (r1 != r2) != (not e12):
                items.append(_it("record:ne_disagrees"))
            if len(items) > 6:
                return ref
    return ref


def _lrec_from_canon(c):
    return (c[0], c[1], frozenset((a, lval(v)) for a, v in c[2]))


def _transform(d, content, t, order, ctx):
    from prov.model import ProvDocument
    out = d
    c = content
    for step in t.split("+"):
        if step == "rebuild":
            out = construct(c, order, style=1 + order[0] % 3)
        elif step == "dup":
            out = construct(c, None, style=2)
            for cont in [out] + list(out.bundles):
                recs = list(cont.get_records())
                for i in order[:2]:
                    if recs:
                        cont.add_record(recs[i % len(recs)])
        elif step == "update":
            new = ProvDocument()
            new.update(out)
            out = new
        elif step == "json":
            out = ProvDocument.deserialize(content=out.serialize(format="json"), format="json")
        else:
            raise ValueError(step)
    return out


def check(case, ctx):
    items = []
    mode = case["mode"]
    b = build(case["recipe"])
    d0, c0 = b.doc, content_of(b)
    if kind_clash(c0):
        ctx.count("discarded:kind_clash")
        return []
    if mode == "T":
        ctx.count("transform:" + case["t"])
        d1 = _transform(d0, c0, case["t"], case["order"], ctx)
        compare_all(d0, c0, d1, c0, items, ctx, touch=case["order"][3] if case["order"][2] % 2 else None)
        # a chain for transitivity: d0 ~ d1 ~ d2
        d2 = construct(c0, list(reversed(case["order"])), style=3)
        compare(d1, d2, True, "chain12", items)
        compare(d0, d2, True, "chain02", items)
        ctx.nontrivial(bool(c0["doc"] or c0["bundles"]))
    elif mode == "E":
        c1 = apply_edit(c0, case["edit"], case["sel"], case["value"], case["name"])
        if c1 is None or kind_clash(c1):
            ctx.count("discarded:edit_not_applicable")
            return []
        ctx.count("edit:" + case["edit"])
        d1 = construct(c1, case["sel"], style=1)
        ref = compare_all(d0, c0, d1, c1, items, ctx, touch=case["sel"][3] if case["sel"][2] % 2 else None)
        if not ref:
            ctx.count("edit_changed_content")
        ctx.nontrivial(True)
        # prov-compare on a sample of pairs (subprocess, ~0.4 s): exit status 0 iff equal, 1 iff different
        if case["sel"][5] % 40 == 0 and not items:
            _prov_compare(d0, d1, ref, items, ctx)
    elif mode == "M":
        from . import c05
        twin0 = construct(c0, None, style=2)
        compare(d0, twin0, True, "before_mutation", items)
        for c_ in [d0] + list(d0.bundles):
            for r in c_.get_records():
                hash(r)
        dummy = []
        for op in case["follow"]:
            if op[0] in ("readd", "set_time", "asserted_type"):
                c05._c05_op(b, op, dummy, ctx)
            else:
                from ..build import apply_op
                apply_op(b, op)
        c1 = content_of(b)
        if kind_clash(c1):
            ctx.count("discarded:kind_clash")
            return []
        d1 = construct(c1, case["order"], style=1)
        ref = compare_all(d0, c1, d1, c1, items, ctx)
        compare(d0, twin0, lossy(c0) == lossy(c1), "stale_twin", items)
        ctx.count("mode:mutate_after_compare")
        ctx.nontrivial(lossy(c0) != lossy(c1))
    else:
        b2 = build(case["recipe2"])
        c2 = content_of(b2)
        compare_all(d0, c0, b2.doc, c2, items, ctx)
        ctx.count("mode:independent_pair")
        ctx.nontrivial(bool(c0["doc"] or c2["doc"]))
    return items


def _prov_compare(d0, d1, ref, items, ctx):
    script = os.path.join(os.path.dirname(os.environ.get("PROV_SRC", "/repo/src")), "scripts", "prov-compare")
    if not os.path.exists(script):
        script = "/repo/scripts/prov-compare"
    wd = getattr(ctx, "workdir", None) or "."
    os.makedirs(wd, exist_ok=True)
    p1, p2 = os.path.join(wd, "cmp1.json"), os.path.join(wd, "cmp2.json")
    with open(p1, "w") as f:
        f.write(d0.serialize(format="json"))
    with open(p2, "w") as f:
        f.write(d1.serialize(format="json"))
    env = dict(os.environ)
    p = subprocess.run([sys.executable, script, p1, p2], capture_output=True, text=True, env=env)
    ctx.count("prov_compare:runs")
    want = 0 if ref else 1
    if p.returncode != want:
        items.append(_it("prov_compare:exit_%d_expected_%d" % (p.returncode, want), stderr=p.stderr[-200:]))
    for x in (p1, p2):
        try:
            os.remove(x)
        except OSError:
            pass
