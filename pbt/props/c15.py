"""C15 - DOT output is always valid Graphviz: one node per element, one path per relation."""
import html
import itertools
import json
import re
import shutil
import subprocess
from collections import Counter

from hypothesis import strategies as st

from .. import gen, spec
from ..build import build

ID = "C15"
LEVEL = "exploration"
RULE = ("Document recipes of the 'dot' profile (identifiers, labels and attribute values drawn from an alphabet rich in "
        "quotes, angle brackets, ampersands, backslashes, braces, bars, newlines, non-ASCII; bundles; all record kinds) x "
        "show_nary x use_labels x show_element_attributes x show_relation_attributes x direction in {BT,TB,LR,RL,XX}. "
        "Oracle: `dot -Tdot_json` accepts prov_to_dot(...).to_string() (exit 0, no error on stderr); from its JSON: every "
        "element record of each unified container has exactly one node with URL = its identifier URI inside the cluster "
        "whose URL is the bundle's identifier URI (document records: outside any cluster) and a label carrying the "
        "identifier (and the prov:label with use_labels); every referenced name has a node; every relation with two "
        "endpoints has exactly one path URL(arg1) -> URL(arg2) labelled with its PROV-N name, direct or through exactly "
        "one point node, and no such path exists between named nodes without a relation; with annotations enabled the "
        "HTML-unescaped table rows contain every non-reference attribute of every drawn record and nothing that is not "
        "an attribute of some record. Non-trivial = a markup-significant character in an identifier / label / value and "
        "at least one relation; distinct by SHA-1 of recipe + options.")
ASSUMPTIONS = [
    "Graphviz 2.43 `dot -Tdot_json` is the acceptance oracle and the parser of the structure",
    "which cluster a merely referenced (undeclared) name is drawn in, node ids, styles and layout are not asserted",
    "relations lacking their second endpoint carry no claim (the library draws them to a blank node)",
]
DIRS = ["BT", "TB", "LR", "RL", "XX"]
OPTS = [dict(show_nary=a, use_labels=b, show_element_attributes=c, show_relation_attributes=d, direction=e)
        for a, b, c, d, e in itertools.product([True, False], [True, False], [True, False], [True, False], DIRS)]
REQUIRED_CLASSES = {"all": ["hostile:identifier", "hostile:label", "hostile:value", "has:bundle", "opt:use_labels", "opt:no_nary",
                            "path:via_point", "path:direct", "annotation_rows_checked", "rendered_then_edited_then_rendered"]}
MARKUP = set('"<>&\\{}|\n')


def preflight():
    if shutil.which("dot") is None:
        return "Graphviz 'dot' not found"
    return None


def budget(tier):
    return {"shards": 8, "examples": 300} if tier == "quick" else {"shards": 16, "examples": 1500}


@st.composite
def _case(draw):
    r = draw(gen.recipe("dot", max_ops=10))
    # make sure hostile labels occur
    labels = draw(st.lists(st.tuples(st.integers(0, 30), gen.text_value("dot")), max_size=2))
    ops = list(r["ops"])
    for sel, text in labels:
        ops.append(["attrs", sel, [[gen.prov_name("label"), {"k": "str", "v": text}]], "pairs"])
    if draw(st.integers(0, 3)) == 0:
        # labels longer than any plausible display limit, markup characters all along
        unit = draw(st.sampled_from(["ab&", "x<y>", 'q"', "é&amp;", "]", "a b "]))
        ops.append(["attrs", draw(st.integers(0, 30)), [[gen.prov_name("label"), {"k": "str", "v": unit * draw(st.integers(15, 40))}]], "pairs"])
    rerender = draw(st.integers(0, 3)) == 0
    if draw(st.integers(0, 3)) == 0:
        # percent signs in attribute NAMES (percent-encoded namespace, local part): format-string hazards
        ops.append(["attrs", draw(st.integers(0, 30)),
                    [[{"ns": "http://example.org/lab%20notes/", "local": "run%2Did", "prefix": "lab", "as": "qn"}, {"k": "str", "v": "100%"}]], "pairs"])
    return dict(r, ops=ops, opts=draw(st.integers(0, len(OPTS) - 1)), rerender=rerender)


def strategy(tier):
    return _case()


def matrix(tier):
    hostile = ['a <b> & "c"', 'q"uote', "back\\", "<br/>", "&amp;", "{x|y}", "new\nline", "é漢\U0001F600", "]]>", "<TABLE>", "50%s", "%d%%", "]", "]]", "[x]"]
    n = lambda l: {"ns": "http://a/", "local": l, "prefix": "ex", "as": "qn"}
    for i, h in enumerate(hostile):
        for oi in (0, 20, 45, 79, (i * 7) % 80):
            ops = [["ns", 0, "ex", "http://a/"],
                   ["rec", 0, "entity", n("e" + h), {}, [[gen.prov_name("label"), {"k": "str", "v": h}], [n("k"), {"k": "str", "v": h}]], "factory"],
                   ["rec", 0, "activity", n("a1"), {}, [[gen.prov_name("label"), {"k": "lang", "v": h, "lang": "en"}]], "factory"],
                   ["rec", 0, "generation", None, {"entity": {"rec": 0}, "activity": {"rec": 1}}, [[n("r"), {"k": "str", "v": h}]], "factory"],
                   ["rec", 0, "start", n("s" + h), {"activity": {"rec": 1}, "trigger": {"rec": 0}, "starter": {"name": n("undeclared" + h)}}, [], "factory"],
                   ["bundle", n("b" + h), "bundle"],
                   ["rec", 1, "entity", n("e" + h), {}, [[n("k"), {"k": "lit", "v": h, "dt": n("T")}]], "factory"]]
            yield {"profile": "dot", "ops": ops, "opts": oi, "cell": ["hostile", h, oi]}
    # structural shapes: a name merely referenced in one bundle and declared in a sibling / in the document, the same
    # identifier declared in several scopes, annotated relations in several scopes
    for oi in (0, 17, 42, 63):
        ops = [["ns", 0, "ex", "http://a/"],
               ["bundle", n("b1"), "bundle"], ["bundle", n("b2"), "bundle"],
               ["rec", 1, "generation", None, {"entity": {"name": n("shared")}, "activity": {"name": n("act")}}, [[n("k"), {"k": "str", "v": "in b1"}]], "factory"],
               ["rec", 2, "entity", n("shared"), {}, [[n("k"), {"k": "str", "v": "declared in b2"}]], "factory"],
               ["rec", 2, "usage", None, {"activity": {"name": n("act")}, "entity": {"name": n("shared")}}, [[n("k"), {"k": "str", "v": "in b2"}]], "factory"],
               ["rec", 1, "activity", n("act"), {}, [], "factory"], ["rec", 2, "activity", n("act"), {}, [], "factory"],
               ["rec", 0, "entity", n("shared"), {}, [[n("k"), {"k": "str", "v": "declared in the document"}]], "factory"],
               ["rec", 0, "activity", n("act"), {}, [], "factory"],
               ["rec", 0, "start", None, {"activity": {"name": n("act")}, "trigger": {"name": n("shared")}, "starter": {"name": n("act2")}}, [[n("r"), {"k": "int", "v": 1}]], "factory"]]
        yield {"profile": "dot", "ops": ops, "opts": oi, "cell": ["scopes", oi]}
        # the same without the document-level declarations (the sibling bundle's element is then the only declaration)
        yield {"profile": "dot", "ops": ops[:8], "opts": oi, "cell": ["scopes-bundles-only", oi]}
        # nothing identified at the document level (nothing at all / one anonymous relation); a bundle describes one
        # identifier in two statements: still one node per unified element record
        dup = [["ns", 0, "ex", "http://a/"], ["bundle", n("b1"), "bundle"],
               ["rec", 1, "entity", n("report"), {}, [[n("version"), {"k": "int", "v": 1}]], "factory"],
               ["rec", 1, "entity", n("report"), {}, [[n("status"), {"k": "str", "v": "draft"}]], "factory"],
               ["rec", 1, "activity", n("act"), {}, [], "factory"],
               ["rec", 1, "activity", n("act"), {}, [[n("k"), {"k": "str", "v": "again"}]], "factory"],
               ["rec", 1, "generation", None, {"entity": {"name": n("report")}, "activity": {"name": n("act")}}, [], "factory"]]
        yield {"profile": "dot", "ops": dup, "opts": oi, "cell": ["duplicates-in-bundle-empty-top", oi]}
        yield {"profile": "dot", "ops": dup + [["rec", 0, "specialization", None, {"specificEntity": {"name": n("report")}, "generalEntity": {"name": n("general")}}, [], "factory"]],
               "opts": oi, "cell": ["duplicates-in-bundle-anonymous-top", oi]}
    for c in _time_only_cells():
        yield c
    # one identifier declared with TWO element kinds in one scope (agent ex:bob and entity ex:bob): two element records
    for oi in (0, 17, 42, 63):
        n = lambda l: {"ns": "http://a/", "local": l, "prefix": "ex", "as": "qn"}
        two = [["ns", 0, "ex", "http://a/"], ["bundle", n("b1"), "bundle"],
               ["rec", 0, "agent", n("bob"), {}, [[n("role"), {"k": "str", "v": "as agent"}]], "factory"],
               ["rec", 0, "entity", n("bob"), {}, [[n("kind"), {"k": "str", "v": "as entity"}]], "factory"],
               ["rec", 1, "entity", n("acme"), {}, [[n("k"), {"k": "int", "v": 1}]], "factory"],
               ["rec", 1, "agent", n("acme"), {}, [[n("k2"), {"k": "int", "v": 2}]], "factory"],
               ["rec", 0, "attribution", None, {"entity": {"name": n("bob")}, "agent": {"name": n("bob")}}, [], "factory"]]
        yield {"profile": "dot", "ops": two, "opts": oi, "cell": ["two-element-kinds-one-identifier", oi]}


def _time_only_cells():
    """relations whose ONLY non-reference attribute is their time (and element annotations likewise: activity times)"""
    n = lambda l: {"ns": "http://a/", "local": l, "prefix": "ex", "as": "qn"}
    for kind in ("generation", "usage", "start", "end", "invalidation"):
        fargs = spec.formal_args(kind)
        for oi, o in enumerate(OPTS):
            if not o["show_relation_attributes"] or o["direction"] not in ("BT", "LR"):
                continue
            for full in (False, True):
                formal = {}
                for i, (a, t) in enumerate(fargs):
                    if t == "time":
                        formal[a] = {"t": "2012-03-02T10:30:00", "as": "dt"}
                    elif i < 2 or full:
                        formal[a] = {"name": n("x%d" % i)}
                ops = [["ns", 0, "ex", "http://a/"], ["rec", 0, kind, None, formal, [], "factory"]]
                yield {"profile": "dot", "ops": ops, "opts": oi, "cell": ["time-only", kind, oi, full]}


def _it(b, **kw):
    d = {"b": b}
    d.update(kw)
    return d


TD = re.compile(r'<TD align="left"[^>]*>(.*?)</TD>\s*<TD align="left"[^>]*>(.*?)</TD>', re.S)
TAG = re.compile(r"<[^>]*>")


def _printed(v):
    import datetime
    return v.isoformat() if isinstance(v, datetime.datetime) else str(v)


def _core(v):
    """the part of a value's text any rendering has to contain (how a literal's datatype or tag is shown is not claimed)"""
    import datetime
    from prov.model import Literal
    from prov.identifier import QualifiedName, Identifier
    if isinstance(v, datetime.datetime):
        return v.isoformat()[:10]
    if isinstance(v, Literal):
        return v.value
    if isinstance(v, QualifiedName):
        return v.localpart
    if isinstance(v, Identifier):
        return v.uri
    return str(v)


def check(case, ctx):
    from prov.dot import prov_to_dot
    from prov.model import ProvException
    from ..runner import exc_item
    b = build(case)
    d = b.doc
    opts = OPTS[case.get("opts", 0) % len(OPTS)]
    ref_doc = d
    if case.get("rerender") and b.records:
        # rendered once, then an existing record is completed, then rendered again; the expectation is computed from
        # a twin that was never rendered (nothing the first rendering may have cached can leak into the oracle)
        from prov.identifier import Namespace
        try:
            prov_to_dot(d, **opts).to_string()
        except Exception as e:
            return [exc_item(e, "prov_to_dot")]
        twin = build(case)
        LATE = Namespace("late", "http://late.example/")
        for bb in (b, twin):
            si, rec, m = bb.records[len(case["ops"]) % len(bb.records)]
            rec.add_attributes([(LATE["added"], "after <first> rendering"), (Namespace("prov", spec.PROV_NS)["label"], "late & label")]
                               if not any(a == spec.PROV_NS + "label" for a, _ in m["attrs"]) else [(LATE["added"], "after <first> rendering")])
        ref_doc = twin.doc
        ctx.count("rendered_then_edited_then_rendered")
    refused = False
    try:
        u = ref_doc.unified()
    except ProvException:
        u = ref_doc
        refused = True
        ctx.count("unification_refused_original_drawn")
    type_to_kind = {spec.type_uri(k): k for k in spec.KINDS}
    formal_uris = {spec.PROV_NS + a for k in spec.KINDS for a, t in spec.formal_args(k) if t == "ref"}
    conts = [(None, u)] + [(x.identifier.uri, x) for x in u.bundles]
    exp_elements = {}
    exp_paths = Counter()
    referenced = set()
    mentioned = set()       # names any relation refers to, also one-ended relations (the library may draw a node for them)
    all_rows = Counter()
    must_rows = Counter()
    hostile = {"identifier": False, "label": False, "value": False}
    n_rel = 0
    mentioned_in = {}
    for cu, c in conts:
        els = Counter()
        seen_groups = set()
        mentioned_in[cu] = set()
        for r in c.get_records():
            kind = type_to_kind[r.get_type().uri]
            attrs = [(a, v) for a, v in r.attributes]
            rows = [(a.localpart, _core(v)) for a, v in attrs if a.uri not in formal_uris]
            for row in rows:
                all_rows[row] += 1
            if MARKUP & set(str(r.identifier or "")):
                hostile["identifier"] = True
            for a, v in attrs:
                if a.uri == spec.PROV_NS + "label" and MARKUP & set(_printed(v)):
                    hostile["label"] = True
                elif MARKUP & set(_printed(v)):
                    hostile["value"] = True
            if r.is_element():
                # one node per UNIFIED element record: records of one kind sharing an identifier count once (the
                # grouping is done here, not taken from the library's unified())
                if refused or (r.identifier.uri, kind) not in seen_groups:
                    els[r.identifier.uri] += 1
                seen_groups.add((r.identifier.uri, kind))
                if opts["show_element_attributes"]:
                    for row in rows:
                        must_rows[row] += 1
                continue
            fargs = spec.formal_args(kind)
            vals = {}
            for a, v in attrs:
                vals.setdefault(a.uri, v)
            v1 = vals.get(spec.PROV_NS + fargs[0][0])
            v2 = vals.get(spec.PROV_NS + fargs[1][0]) if fargs[1][1] == "ref" else None
            mentioned.update(v.uri for a, v in attrs if a.uri in formal_uris and hasattr(v, "uri"))
            mentioned_in[cu].update(v.uri for a, v in attrs if a.uri in formal_uris and hasattr(v, "uri"))
            if v1 is None or v2 is None:
                continue
            n_rel += 1
            exp_paths[(spec.provn_name(kind), v1.uri, v2.uri)] += 1
            referenced.update([v1.uri, v2.uri])
            if opts["show_relation_attributes"]:
                for row in rows:
                    must_rows[row] += 1
        exp_elements[cu] = els
    for k, f in hostile.items():
        if f:
            ctx.count("hostile:" + k)
    if len(conts) > 1:
        ctx.count("has:bundle")
    if opts["use_labels"]:
        ctx.count("opt:use_labels")
    if not opts["show_nary"]:
        ctx.count("opt:no_nary")
    ctx.count("opt:direction=" + opts["direction"])
    ctx.nontrivial(any(hostile.values()) and n_rel > 0)

    try:
        text = prov_to_dot(d, **opts).to_string()
    except Exception as e:
        return [exc_item(e, "prov_to_dot")]
    p = subprocess.run(["dot", "-Tdot_json"], input=text.encode("utf-8"), capture_output=True, timeout=120)
    err = p.stderr.decode("utf-8", "replace")
    if p.returncode != 0 or "Error" in err or "syntax error" in err:
        return [_it("graphviz_rejects:" + ("html_label" if "label" in err else "syntax"), stderr=err[:300])]
    j = json.loads(p.stdout.decode("utf-8"))
    # dot_json shows attribute values before escString processing: a literal backslash is still written twice
    for o in j.get("objects", []):
        html_label = o.get("shape") == "note" or '<font color="#333333"' in str(o.get("label", ""))
        for k in ("URL", "label"):
            if isinstance(o.get(k), str) and not (k == "label" and html_label):
                o[k] = o[k].replace("\\\\", "\\")
    objs = {o["_gvid"]: o for o in j.get("objects", [])}
    in_cluster = {}
    clusters = {}
    for o in objs.values():
        if "nodes" in o or str(o.get("name", "")).startswith("cluster"):
            clusters[o.get("URL")] = o
            for g in o.get("nodes", []):
                in_cluster[g] = o.get("URL")
    items = []
    # element nodes per container
    got = {}
    for g, o in objs.items():
        if "nodes" in o or str(o.get("name", "")).startswith("cluster"):
            continue
        if o.get("shape") in ("point", "note"):
            continue
        got.setdefault(in_cluster.get(g), Counter())[o.get("URL")] += 1
    total_nodes = Counter()
    for c_ in got.values():
        total_nodes.update(c_)
    total_expected = Counter()
    for els in exp_elements.values():
        total_expected.update(els)
    for cu, els in exp_elements.items():
        if cu is not None and cu not in clusters:
            items.append(_it("cluster_missing", bundle=cu))
            continue
        have = got.get(cu, Counter())
        for uri, n in els.items():
            if cu is None:
                # document-level elements belong to no cluster; Graphviz moves a node into a cluster as soon as an
                # edge written inside that cluster mentions it, so only their existence is asserted
                if total_nodes.get(uri, 0) < total_expected[uri]:
                    items.append(_it("element_node_missing", uri=uri, want=total_expected[uri], got=total_nodes.get(uri, 0)))
            elif have.get(uri, 0) < n:
                items.append(_it("element_node_missing_in_its_cluster", uri=uri, bundle=cu, want=n, got=have.get(uri, 0)))
        for uri, n in total_nodes.items():
            # upper bound: per container its element records of that name, or one node when the name is only mentioned there
            allowed = sum(e.get(uri, 0) or (1 if uri in mentioned_in.get(c2, ()) else 0) for c2, e in exp_elements.items())
            if uri in total_expected and n > allowed and cu is None:
                items.append(_it("element_node_duplicated", uri=uri, nodes=n, allowed=allowed))
    all_urls = Counter()
    for c_ in got.values():
        all_urls.update(c_)
    for uri in referenced:
        if all_urls.get(uri, 0) < 1:
            items.append(_it("referenced_name_has_no_node", uri=uri))
    # labels carry the identifier (and the label)
    if not items:
        for cu, c in conts:
            for r in c.get_records():
                if not r.is_element():
                    continue
                cands = [o for g, o in objs.items() if o.get("URL") == r.identifier.uri and (cu is None or in_cluster.get(g) == cu) and "nodes" not in o]
                texts = [html.unescape(TAG.sub(" ", o.get("label", ""))) for o in cands]
                ident = r.identifier.localpart
                sk = lambda t: "".join(ch for ch in t if ch.isalnum())
                if not any(sk(ident) in sk(t_) or sk(ident) in sk(o.get("label", "")) for t_, o in zip(texts, cands)):
                    items.append(_it("node_label_lacks_identifier", uri=r.identifier.uri, labels=[o.get("label", "")[:80] for o in cands]))
                if opts["use_labels"]:
                    lab = _core(r.label)
                    # (subsequence, not substring: the rendering may escape control characters, e.g. CR as backslash-r)
                    def _sub(small, big):
                        it = iter(big)
                        return all(ch in it for ch in small)
                    if not any(_sub(sk(lab), sk(t_)) or _sub(sk(lab), sk(o.get("label", ""))) for t_, o in zip(texts, cands)):
                        items.append(_it("node_label_lacks_prov_label", uri=r.identifier.uri, want=lab[:60], labels=[o.get("label", "")[:80] for o in cands]))
    # relation paths
    out_edges = {}
    for e in j.get("edges", []):
        out_edges.setdefault(e["tail"], []).append(e)
    names = {spec.provn_name(k) for k in spec.RELATION_KINDS}
    got_paths = Counter()
    for e in j.get("edges", []):
        if e.get("label") not in names:
            continue
        t, h = objs[e["tail"]], objs[e["head"]]
        if h.get("shape") == "point":
            seconds = [x for x in out_edges.get(e["head"], []) if not x.get("label")]
            if not out_edges.get(e["head"]):
                continue      # the blank node IS the (missing) second endpoint: relation lacking an endpoint, no claim
            if len(seconds) != 1:
                items.append(_it("blank_node_without_single_second_segment", n=len(seconds)))
                continue
            h2 = objs[seconds[0]["head"]]
            ctx.count("path:via_point")
            if h2.get("URL") is None or t.get("URL") is None:
                continue      # relation lacking an endpoint: no claim
            got_paths[(e["label"], t.get("URL"), h2.get("URL"))] += 1
        else:
            ctx.count("path:direct")
            if h.get("URL") is None or t.get("URL") is None:
                continue
            got_paths[(e["label"], t.get("URL"), h.get("URL"))] += 1
    if got_paths != exp_paths:
        miss = list((exp_paths - got_paths).elements())
        extra = list((got_paths - exp_paths).elements())
        rev = [m for m in miss if (m[0], m[2], m[1]) in extra]
        if rev:
            items.append(_it("relation_path_reversed", rel=rev[0][0]))
        for m in [m for m in miss if m not in rev][:3]:
            items.append(_it("relation_path_missing:" + m[0], src=m[1], dst=m[2]))
        for x in [x for x in extra if (x[0], x[2], x[1]) not in miss][:3]:
            items.append(_it("relation_path_invented:" + x[0], src=x[1], dst=x[2]))
    # annotation rows
    rows = Counter()
    for o in objs.values():
        if o.get("shape") == "note":
            for a, v in TD.findall(o.get("label", "")):
                rows[(html.unescape(a), html.unescape(v))] += 1
    if must_rows or rows:
        ctx.count("annotation_rows_checked")
    # how a value's text is quoted / escaped inside its rendering is not claimed: compare letters and digits only
    nb = lambda t: "".join(ch for ch in t if ch.isalnum())

    def subseq(small, big):
        it = iter(big)
        return all(ch in it for ch in small)      # escape sequences may add letters (\\r, \\n) inside the rendering

    def shown(row):
        return any(row[0] in a and subseq(nb(row[1]), nb(v)) for (a, v) in rows)

    def explained(cell):
        return any(a in cell[0] and subseq(nb(v), nb(cell[1])) for (a, v) in all_rows)
    for row in must_rows:
        if not shown(row):
            items.append(_it("annotation_row_missing", attr=row[0][:60], value=row[1][:60]))
            break
    for cell in rows:
        if not explained(cell):
            items.append(_it("annotation_row_invented_or_mangled", attr=cell[0][:60], value=cell[1][:60]))
            break
    return items
