"""C08 - unified() merges exactly the records sharing an identifier (per kind, per bundle), losing nothing."""
import copy

from hypothesis import strategies as st

from .. import gen, spec
from ..build import build, content_of
from ..canon import ordered, snapshot, crecords, diff_ordered
from .c04 import lval

ID = "C08"
LEVEL = "exploration"
RULE = ("Document recipes biased to identifier collisions: after a random recipe, 0-4 'collision' records are appended "
        "that re-use the identifier of an earlier record in the same container with (a) the same kind and the same / a "
        "subset of / conflicting formal arguments and new attributes, or (b) another kind (entity/agent/activity; "
        "generation/usage/invalidation), the identifier spelled through another prefix. Oracle: reference unification "
        "on the abstract content (group by container, identifier URI, kind; union of attributes; first-occurrence order; "
        "anonymous records in place; bundles kept): must raise ProvException iff a same-kind group disagrees on a formal "
        "attribute, may raise iff same-identifier records of different kinds do; otherwise the result is a NEW document "
        "equal (ordered strict content) to the reference, idempotent, and the source snapshot is unchanged; the same for "
        "ProvBundle.unified(). Non-trivial = some (identifier, kind) group has >= 2 records or an identifier is shared "
        "across kinds; distinct by SHA-1 of the recipe.")
ASSUMPTIONS = [
    "collisions whose union would hold two ==-equal values of different kind under one attribute are discarded (set semantics, excluded by the statement)",
    "prov:entity of a membership is not treated as single-valued (the library's documented multi-entity compatibility path, not claimed by C05 either): merged memberships may hold several members",
    "formal conflicts are generated on reference arguments and on clearly different times only (equal instants in different zones are not a disagreement for the library)",
]
REQUIRED_CLASSES = {"all": ["merge:same_kind", "collision:cross_kind", "expected:conflict", "in_bundle_merge", "bundle.unified", "unified_again_after_edit", "absent_lookups_before_unified"]}

OTHER_KIND = {"entity": "agent", "agent": "activity", "activity": "entity", "generation": "usage", "usage": "invalidation",
              "invalidation": "generation"}


def budget(tier):
    return {"shards": 8, "examples": 600} if tier == "quick" else {"shards": 16, "examples": 6000}


@st.composite
def strategy_(draw):
    r = draw(gen.recipe("json", max_ops=10))
    cols = draw(st.lists(st.tuples(st.integers(0, 30), st.sampled_from(["same", "same", "subset", "conflict", "kind", "kind"]),
                                   gen.attr_list("json", 3), st.sampled_from(gen.PREFIXES), st.integers(0, 5)),
                         min_size=0, max_size=4))
    # read-only lookups of absent identifiers before unified(): a lookup must not change what unified() returns
    return dict(r, collisions=[list(c) for c in cols], misses=draw(st.sampled_from([0, 0, 1, 2, 3])))


def strategy(tier):
    return strategy_()


def matrix(tier):
    """Exhaustive core: every record kind x every formal argument: two same-identifier records that agree on everything
    (merge) / where the second omits the argument (merge) / where the second disagrees on exactly that argument (refusal),
    at document level and inside a bundle."""
    n = lambda l: {"ns": "http://a/", "local": l, "prefix": "ex", "as": "qn"}
    head = [["ns", 0, "ex", "http://a/"], ["bundle", n("b1"), "bundle"]]
    for kind in spec.KIND_LIST:
        fargs = spec.formal_args(kind)
        via = "factory" if spec.KINDS[kind][6] else "new_record"
        full = {}
        for i, (a, t) in enumerate(fargs):
            full[a] = {"name": n("arg%d" % i)} if t == "ref" else {"t": "2012-03-02T10:30:0%d" % i, "as": "dt"}
        attrs1 = [[n("k"), {"k": "int", "v": 1}]]
        attrs2 = [[n("k"), {"k": "int", "v": 2}], [n("k2"), {"k": "str", "v": "x"}]]
        for scope in (0, 1):
            variants = [("same", dict(full))]
            for j, (a, t) in enumerate(fargs):
                if kind == "membership" and a == "entity":
                    continue
                if j >= spec.mandatory(kind):
                    variants.append(("omit:" + a, {k: v for k, v in full.items() if k != a}))
                other = dict(full)
                other[a] = {"name": n("other%d" % j)} if t == "ref" else {"t": "1999-01-01T00:00:00", "as": "dt"}
                variants.append(("conflict:" + a, other))
            for label, second in variants:
                ops = head + [["rec", scope, kind, n("r1"), dict(full), attrs1, via], ["rec", scope, kind, n("r1"), second, attrs2, via]]
                yield {"profile": "json", "ops": ops, "collisions": [], "misses": 0, "cell": [kind, scope, label]}
                if label.startswith("omit") or label == "same":
                    yield {"profile": "json", "ops": ops, "collisions": [], "misses": 0, "touch": True, "cell": [kind, scope, label, "read-first"]}


def _expand(case):
    """materialise the collision records as ordinary rec ops appended to the recipe"""
    ops = list(case["ops"])
    for sel, mode, attrs, prefix, k in case.get("collisions", []):
        cands = [o for o in ops if o[0] == "rec" and o[3] is not None]
        if not cands:
            break
        o = cands[sel % len(cands)]
        kind = o[2]
        ident = dict(o[3], prefix=prefix, **{"as": "qn"})
        formal = copy.deepcopy(o[4])
        fargs = spec.formal_args(kind)
        mand = [a for a, _ in fargs[:spec.mandatory(kind)]]
        via = o[6]
        if mode == "subset":
            formal = {a: v for a, v in formal.items() if a in mand}
        elif mode == "conflict":
            keys = [a for a, t in fargs if a in formal]
            if kind == "membership":
                keys = [a for a in keys if a != "entity"]   # several members in one membership: not claimed
            if keys:
                a = keys[k % len(keys)]
                typ = dict(fargs)[a]
                if typ == "ref":
                    formal[a] = {"name": {"ns": "http://conflict/", "local": "other%d" % k, "prefix": "cf", "as": "qn"}}
                else:
                    formal[a] = {"t": "1066-10-14T09:0%d:00" % k, "as": "dt"}
        elif mode == "kind":
            if kind not in OTHER_KIND:
                continue
            kind2 = OTHER_KIND[kind]
            f2 = {}
            for a, t in spec.formal_args(kind2):
                if a in formal and isinstance(formal[a], dict) and (("t" in formal[a]) == (t == "time")):
                    f2[a] = formal[a]
            for a, t in spec.formal_args(kind2)[:spec.mandatory(kind2)]:
                if a not in f2:
                    f2[a] = {"name": {"ns": "http://a/", "local": "e1", "prefix": "ex", "as": "qn"}}
            kind, formal = kind2, f2
            if via == "alias" and kind not in spec.ALIASES:
                via = "factory"
        if via == "convenience":
            via = "factory"
        ops.append(["rec", o[1], kind, ident, formal, attrs, via])
    # the same anonymous relation stated twice stays twice (records without identifier are kept as they are)
    for sel, mode, attrs, prefix, k in case.get("collisions", [])[:2]:
        anon = [o for o in ops if o[0] == "rec" and o[3] is None]
        if anon and k % 2:
            ops.append(list(anon[sel % len(anon)]))
    return dict(case, ops=ops)


def reference(content):
    """-> (must_raise, may_raise, expected ordered content or None, discard)"""
    formal_names = {}
    for k in spec.KINDS:
        formal_names[spec.type_uri(k)] = {spec.PROV_NS + a for a, _ in spec.formal_args(k)}
    all_formal = set().union(*formal_names.values())
    must = may = False
    discard = False
    out = {"doc": None, "bundles": []}
    stats = {"same_kind": 0, "cross_kind": 0, "in_bundle": 0}

    def unify(recs, in_bundle):
        nonlocal must, may, discard
        groups = {}
        order = []
        byid = {}
        for r in recs:
            if r["id"] is None:
                order.append(("anon", r))
                continue
            key = (r["id"], r["type"])
            byid.setdefault(r["id"], []).append(r)
            if key not in groups:
                groups[key] = []
                order.append(("group", key))
            groups[key].append(r)
        for key, rs in groups.items():
            if len(rs) > 1:
                stats["same_kind"] += 1
                if in_bundle:
                    stats["in_bundle"] += 1
            seen = {}
            for r in rs:
                for a, v in r["attrs"]:
                    v = tuple(v)
                    if a in all_formal:
                        if a in seen and seen[a] != v:
                            if key[1].endswith("#Membership") and a.endswith("#entity"):
                                discard = True   # several members in one membership record: not claimed
                            else:
                                must = True
                        seen.setdefault(a, v)
            # kind clash inside the union -> outside the statement
            lv = {}
            for r in rs:
                for a, v in r["attrs"]:
                    k2 = (a, lval(v))
                    if k2 in lv and lv[k2] != tuple(v):
                        discard = True
                    lv[k2] = tuple(v)
        for ident, rs in byid.items():
            kinds = {r["type"] for r in rs}
            if len(kinds) > 1:
                stats["cross_kind"] += 1
                seen = {}
                for r in rs:
                    for a, v in r["attrs"]:
                        if a in all_formal:
                            if a in seen and seen[a] != tuple(v):
                                may = True
                            seen.setdefault(a, tuple(v))
        res = []
        for kind, x in order:
            if kind == "anon":
                res.append((x["type"], None, tuple(sorted(set((a, tuple(v)) for a, v in x["attrs"]), key=repr))))
            else:
                attrs = set()
                for r in groups[x]:
                    attrs |= set((a, tuple(v)) for a, v in r["attrs"])
                res.append((x[1], x[0], tuple(sorted(attrs, key=repr))))
        return res

    top = unify(content["doc"], False)
    bl = [(u, unify(recs, True)) for u, recs in content["bundles"]]
    return must, may or must, (top, bl), discard, stats


def _it(b, **kw):
    d = {"b": b}
    d.update(kw)
    return d


def check(case, ctx):
    from prov.model import ProvException, ProvDocument, ProvBundle
    full = _expand(case)
    b = build(full)
    d = b.doc
    content = content_of(b)
    must, may, expected, discard, stats = reference(content)
    if discard:
        ctx.count("discarded:kind_clash_in_union")
        return []
    if stats["same_kind"]:
        ctx.count("merge:same_kind")
    if stats["cross_kind"]:
        ctx.count("collision:cross_kind")
    if stats["in_bundle"]:
        ctx.count("in_bundle_merge")
    if must:
        ctx.count("expected:conflict")
    ctx.nontrivial(stats["same_kind"] > 0 or stats["cross_kind"] > 0)
    items = []
    if case.get("misses"):
        from prov.identifier import Namespace, QualifiedName
        NA = Namespace("absentns", "http://absent.example/")
        for c in [d] + list(d.bundles):
            for i in range(case["misses"]):
                if c.get_record(QualifiedName(NA, "nothing%d" % i)):
                    items.append(_it("lookup_of_absent_identifier_found_something"))
        ctx.count("absent_lookups_before_unified")
    if case.get("misses", 0) % 2 or case.get("touch"):
        from ..touch import readonly_touch
        readonly_touch(d, 0, foreign_lookups=False)      # a document whose records have been read (args, formal_attributes ...)
        ctx.count("records_read_before_unified")
    before = snapshot(d)
    try:
        u = d.unified()
        raised = False
    except ProvException:
        raised = True
        u = None
    if snapshot(d) != before:
        items.append(_it("source_changed"))
    if raised:
        ctx.count("raised")
        if not may:
            items.append(_it("raised_without_conflict"))
        return items
    if must:
        items.append(_it("conflict_not_refused"))
        return items
    if u is d or not isinstance(u, ProvDocument):
        items.append(_it("not_a_new_document"))
    got = ordered(u)
    items.extend(diff_ordered(expected[0], got[0], "doc"))
    gb = dict(got[1])
    eb = dict(expected[1])
    if [x for x, _ in got[1]] != [x for x, _ in expected[1]]:
        if set(gb) != set(eb):
            items.append(_it("bundles_differ", got=sorted(map(str, gb)), want=sorted(map(str, eb))))
    for uri in eb:
        if uri in gb:
            items.extend(diff_ordered(eb[uri], gb[uri], uri))
    if not items:
        # idempotence
        try:
            uu = u.unified()
            if ordered(uu) != got:
                items.append(_it("not_idempotent"))
        except ProvException:
            items.append(_it("unified_twice_raises"))
    # unify, complete one of the records through the record API (no record is added), unify again
    if not items and b.records:
        from prov.identifier import Namespace
        si, rec, m = b.records[len(case["ops"]) % len(b.records)]
        LATE = Namespace("late", "http://late.example/")
        rec.add_attributes([(LATE["added"], "after-first-unified")])
        m["attrs"].append((LATE["added"].uri, ("str", "after-first-unified")))
        must2, may2, expected2, discard2, _ = reference(content_of(b))
        if not (must2 or may2 or discard2):
            try:
                u2 = d.unified()
                got2 = ordered(u2)
                items.extend(diff_ordered(expected2[0], got2[0], "doc(after edit)"))
                gb2 = dict(got2[1])
                for uri, recs2 in expected2[1]:
                    if uri in gb2:
                        items.extend(diff_ordered(recs2, gb2[uri], "%s(after edit)" % uri))
                ctx.count("unified_again_after_edit")
            except ProvException:
                items.append(_it("unified_raises_after_harmless_edit"))
        before = snapshot(d)
        # the edit is in the model whatever the verdict on the second document-level call was
        eb = dict(expected2[1])
    # ProvBundle.unified() of every bundle
    if not items:
        for bun in d.bundles:
            ub = bun.unified()
            ctx.count("bundle.unified")
            if not isinstance(ub, ProvBundle) or ub is bun:
                items.append(_it("bundle_unified_not_new"))
            elif ub.identifier is None or ub.identifier.uri != bun.identifier.uri:
                items.append(_it("bundle_unified_identifier"))
            else:
                items.extend(diff_ordered(eb[bun.identifier.uri], crecords(ub), "bundle.unified:" + bun.identifier.uri))
        if snapshot(d) != before:
            items.append(_it("source_changed"))
    return items
