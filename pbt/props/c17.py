"""C17 - writing to a file path is exact and all-or-nothing (syscall fault enumeration with strace)."""
import hashlib
import io
import itertools
import os
import re
import shutil
import subprocess
import sys

from ..faults import child as childmod

ID = "C17"
LEVEL = "fault_enumeration"
RULE = ("Cases = format {json, xml, rdf, provn} x file-name class {plain relative, absolute, with spaces, non-ASCII, "
        "containing '#', '?', ';', ':', '%41'} x destination pre-exists with known content or not x temp directory on the "
        "same file system or on another device (/dev/shm) x document size (1 or several write calls). Each case runs "
        "serialize(destination=name) in a CHILD PROCESS under strace: first fault-free to take the census of the "
        "write-family syscalls (write, pwrite64, writev, sendfile, copy_file_range) and rename-family syscalls that "
        "touch the scratch directories, then once per census entry with that very syscall invocation failing (ENOSPC / "
        "EIO for writes, EACCES for renames), plus a run whose serialisation itself raises half way, plus four runs under "
        "a file-size limit (RLIMIT_FSIZE at 1/4, 1/2, len-7, len-1: the kernel performs a real SHORT write and fails the "
        "next one), plus a fault-free run that uses the same relative name from two working directories. Within a case the "
        "fault points are enumerated exhaustively. Oracle fault-free: exit 'returned', the work directory holds the old "
        "entries plus exactly the named file, whose bytes equal serialize(BytesIO). With a fault exactly two outcomes are "
        "accepted: 'exception propagated' with the named file byte-identical to its old content (or still absent), or "
        "'returned' with the complete document. evaluations = child runs; non-trivial = a run whose injected fault "
        "fired (INJECTED in the strace log) or a file name containing URL syntax; distinct by (case, fault point).")
ASSUMPTIONS = [
    "strace -e inject (ptrace) is available where the check runs; otherwise the run ends as a harness error (exit 2), never as a pass",
    "left-over temporary files after a FAILED write are counted, not asserted (the statement does not claim cleanup); after a successful write nothing but the named file may be new in the work directory",
    "the child reports through its exit status only, so none of the enumerated writes belongs to the harness",
]
FORMATS = ["json", "xml", "rdf", "provn"]
NAMES = {
    "plain": "out.%s", "absolute": None, "spaces": "my prov doc.%s", "nonascii": "dömö-文書.%s", "hash": "a#b.%s",
    "question": "a?b.%s", "semicolon": "a;b.%s", "colon": "x:y.%s", "percent": "p%%41q.%s",
    "scheme": "ex:e1.%s", "scheme-dash": "prov-n:out.%s",     # file names that look like 'scheme:rest' (a qualified name!)
}
OLD = b"OLD CONTENT that must survive a failed write\n" * 3
REQUIRED_CLASSES = {"all": ["fault:write:fired", "fault:rename:fired", "fault:serialisation_raises", "fault:short_write_then_EFBIG", "sequence:two_directories", "name:hash", "name:colon",
                            "preexisting:True", "preexisting:False", "tmp:other_device", "outcome:exception_and_old_content"]}


def preflight():
    if shutil.which("strace") is None:
        return "strace not found"
    p = subprocess.run(["strace", "-o", "/dev/null", "-e", "trace=write", "-e", "inject=write:error=ENOSPC:when=9999", "true"],
                       capture_output=True, text=True)
    if p.returncode != 0:
        return "strace cannot trace/inject here: " + p.stderr[:200]
    return None


def budget(tier):
    return {"shards": 16, "examples": 0}


def _pick(seed, *key):
    h = hashlib.sha1(repr((seed,) + key).encode()).digest()
    return h[0]


def matrix(tier):
    seed = int(os.environ.get("VERIF_SEED", "1") or "1")
    if tier == "thorough":
        for fmt, nc, pre, tmp, size in itertools.product(FORMATS, NAMES, (True, False), ("same", "other"), (1, 40, -3000)):
            yield {"fmt": fmt, "name": nc, "pre": pre, "tmp": tmp, "size": size}
    else:
        for fmt, nc in itertools.product(FORMATS, NAMES):
            b = _pick(seed, fmt, nc)
            yield {"fmt": fmt, "name": nc, "pre": bool(b & 1), "tmp": "other" if b & 2 else "same", "size": 40 if b & 4 else 1}
        # make sure every dimension value occurs whatever the seed
        for fmt in FORMATS:
            yield {"fmt": fmt, "name": "plain", "pre": True, "tmp": "other", "size": 40}
            yield {"fmt": fmt, "name": "hash", "pre": False, "tmp": "same", "size": 1}
            # dominated by multi-byte text (byte length != character length), larger than one I/O block
            yield {"fmt": fmt, "name": "plain", "pre": bool(_pick(seed, fmt) & 1), "tmp": "same", "size": -3000}


def _it(b, **kw):
    d = {"b": b}
    d.update(kw)
    return d


LINE = re.compile(r"^\d+\s+(\w+)\((.*)$")


def _expected(fmt, size):
    childmod.pin_bnodes()
    d = childmod.make_doc(size)
    if fmt in ("json", "provn"):
        # through the text destination (the returned string), encoded here: a different code path from the binary
        # temporary file the path destination is written through
        return d.serialize(format=fmt).encode("utf-8")
    buf = io.BytesIO()
    d.serialize(buf, format=fmt)
    return buf.getvalue()


def _listing(d):
    out = {}
    for root, dirs, files in os.walk(d):
        for f in files:
            p = os.path.join(root, f)
            out[os.path.relpath(p, d)] = os.path.getsize(p)
    return out


def _bystanders(fmt, target, work):
    """unrelated files that must not be touched ('a#b.json' must not end up in 'a', 'ex:e1.json' not in 'e1.json'), and
    the usual side-file names of the destination (a draft saved as 'report.json.tmp' is not the library's to take)"""
    base = os.path.basename(target)
    names = ["a", "x", "y." + fmt, "p", "pAq." + fmt, "ex", "e1." + fmt, "out2." + fmt,
             base + ".tmp", base + ".bak", base + "~", "." + base + ".tmp"]
    return [n for n in names if os.path.join(work, n) != target]


def run_child(case, scratch, inject=None, poison=False, extra=None):
    """-> (exit code, strace log lines, work dir, tmp dir, file name as given, absolute path of the named file)"""
    work = os.path.join(scratch, "work")
    tmpd = os.path.join("/dev/shm", "c17-" + os.path.basename(scratch) + "-" + str(os.getpid())) if case["tmp"] == "other" else os.path.join(scratch, "tmp")
    for d in (work, tmpd):
        shutil.rmtree(d, ignore_errors=True)
        os.makedirs(d)
    pat = NAMES[case["name"]]
    name = os.path.join(work, "abs-out.%s" % case["fmt"]) if pat is None else pat % case["fmt"]
    target = name if os.path.isabs(name) else os.path.join(work, name)
    # unrelated files that must not be touched ('a#b.json' must not end up in 'a')
    for other in _bystanders(case["fmt"], target, work):
        with open(os.path.join(work, other), "wb") as f:
            f.write(b"bystander")
    if case["pre"]:
        with open(target, "wb") as f:
            f.write(OLD)
    log = os.path.join(scratch, "strace.log")
    cmd = ["strace", "-f", "-y", "-o", log, "-e", "trace=write,pwrite64,writev,sendfile,copy_file_range,rename,renameat,renameat2"]
    if inject:
        cmd += ["-e", "inject=%s:error=%s:when=%d" % inject]
    src = os.environ.get("PROV_SRC", "/repo/src")
    cmd += [sys.executable, "-B", os.path.abspath(childmod.__file__), src, work, case["fmt"], name, str(case["size"])]
    if poison:
        cmd.append("raise")
    elif extra:
        cmd.append(extra)
    env = dict(os.environ, TMPDIR=tmpd, PYTHONDONTWRITEBYTECODE="1", PYTHONPATH=src)
    p = subprocess.run(cmd, env=env, stdin=subprocess.DEVNULL, stdout=subprocess.DEVNULL, stderr=subprocess.DEVNULL, timeout=300)
    with open(log, errors="replace") as f:
        lines = f.read().splitlines()
    return p.returncode, lines, work, tmpd, name, target


def census(lines, roots):
    """-> [(syscall, ordinal among that syscall's invocations, text)] for invocations touching the scratch dirs"""
    counts = {}
    out = []
    for ln in lines:
        m = LINE.match(ln)
        if not m:
            continue
        sc = m.group(1)
        if sc not in ("write", "pwrite64", "writev", "sendfile", "copy_file_range", "rename", "renameat", "renameat2"):
            continue
        counts[sc] = counts.get(sc, 0) + 1
        if any(r in ln for r in roots):
            out.append((sc, counts[sc], ln[:160]))
    return out


def check(case, ctx):
    scratch = os.path.join(ctx.workdir, "case-%s-%s-%d" % (case["fmt"], case["name"], os.getpid()))
    os.makedirs(scratch, exist_ok=True)
    items = []
    try:
        expected = _expected(case["fmt"], case["size"])
        ctx.count("name:" + case["name"])
        ctx.count("preexisting:%s" % case["pre"])
        ctx.count("tmp:%s" % ("other_device" if case["tmp"] == "other" else "same_fs"))
        ctx.count("format:" + case["fmt"])
        urlish = case["name"] in ("hash", "question", "semicolon", "colon", "percent", "scheme", "scheme-dash")
        # ---- fault-free run
        rc, lines, work, tmpd, name, target = run_child(case, scratch)
        ctx.count("child_runs")
        before = {n: 9 for n in _bystanders(case["fmt"], target, work)}
        if rc != 0:
            items.append(_it("fault_free_run_failed", rc=rc, name=name))
            return items
        listing = _listing(work)
        rel = os.path.relpath(target, work)
        want = dict(before)
        want[rel] = len(expected)
        if listing != want:
            extra = sorted(set(listing) - set(want))
            missing = sorted(set(want) - set(listing))
            changed = sorted(k for k in want if k in listing and listing[k] != want[k])
            if missing and rel in missing:
                items.append(_it("named_file_not_written", name=name, extra=extra[:3]))
            elif extra:
                items.append(_it("written_somewhere_else", extra=extra[:3]))
            else:
                items.append(_it("wrong_size_or_bystander_changed", changed=changed[:3]))
            return items
        with open(target, "rb") as f:
            data = f.read()
        if data != expected and not _same(case["fmt"], data, expected):
            items.append(_it("file_content_differs_from_stream_serialisation", fmt=case["fmt"]))
            return items
        for b_ in before:
            with open(os.path.join(work, b_), "rb") as f:
                if f.read() != b"bystander":
                    items.append(_it("bystander_file_overwritten", file=b_))
                    return items
        if urlish:
            ctx.nontrivial(True)
        # ---- the same relative name used from two working directories in one process
        if not os.path.isabs(name):
            work2 = os.path.join(scratch, "work2")
            shutil.rmtree(work2, ignore_errors=True)
            os.makedirs(work2)
            rc2, lines2, work, tmpd, name, target = run_child(case, scratch, extra="again=" + work2)
            ctx.count("child_runs")
            ctx.count("sequence:two_directories")
            ok1 = os.path.exists(target) and (open(target, "rb").read() == expected or _same(case["fmt"], open(target, "rb").read(), expected))
            t2 = os.path.join(work2, name)
            ok2 = os.path.exists(t2) and (open(t2, "rb").read() == expected or _same(case["fmt"], open(t2, "rb").read(), expected))
            if rc2 != 0 or not ok1 or not ok2:
                items.append(_it("same_relative_name_in_two_directories", rc=rc2, first_ok=ok1, second_ok=ok2,
                                 second_dir_listing=sorted(_listing(work2))[:4]))
                return items
        points = census(lines, [os.path.basename(scratch), os.path.basename(tmpd)])
        ctx.count("census_points", len(points))
        leftovers = len(_listing(tmpd))
        if leftovers:
            ctx.count("tmp_leftover_after_success")
        # ---- one run per fault point
        runs = [("poison", None)]
        # real short writes: a file-size limit at several cut points (the kernel writes up to the limit, then fails)
        for cut in sorted({max(1, len(expected) // 4), len(expected) // 2, max(1, len(expected) - 7), max(1, len(expected) - 1)}):
            runs.append(("fsize", cut))
        for sc, n, text in points:
            fam = "rename" if sc.startswith("rename") else "write"
            for err in (("ENOSPC", "EIO") if fam == "write" else ("EACCES",)):
                runs.append((fam, (sc, err, n)))
        for fam, inj in runs:
            if fam == "fsize":
                rc, lines, work, tmpd, name, target = run_child(case, scratch, extra="fsize=%d" % inj)
            else:
                rc, lines, work, tmpd, name, target = run_child(case, scratch, inject=inj, poison=(fam == "poison"))
            ctx.count("child_runs")
            ctx.evaluations += 1
            fired = fam in ("poison", "fsize") or any("(INJECTED)" in ln for ln in lines)
            if fam == "poison":
                ctx.count("fault:serialisation_raises")
            elif fam == "fsize":
                ctx.count("fault:short_write_then_EFBIG")
            elif fired:
                ctx.count("fault:%s:fired" % fam)
            else:
                ctx.count("fault:%s:not_reached" % fam)
            if fired:
                ctx.nontrivial(True)
                ctx.nontrivial_hashes.add(hashlib.sha1(repr((sorted(case.items()), fam, inj)).encode()).hexdigest()[:16])
            exists = os.path.exists(target)
            data = open(target, "rb").read() if exists else None
            old_ok = (data == OLD) if case["pre"] else (not exists)
            complete = exists and (data == expected or _same(case["fmt"], data, expected))
            if rc == 3 and old_ok:
                ctx.count("outcome:exception_and_old_content")
            elif rc == 0 and complete:
                ctx.count("outcome:returned_and_complete")
                if fam == "poison":
                    items.append(_it("serialisation_failure_swallowed"))
            elif rc == 3 and complete:
                ctx.count("outcome:exception_but_complete")   # the fault hit after the document was in place (e.g. cleanup)
            else:
                state = "absent" if not exists else ("empty" if not data else ("truncated" if expected.startswith(data) or len(data) < len(expected) else "other"))
                items.append(_it("%s_fault:%s:destination_%s" % (fam, "returned" if rc == 0 else "raised" if rc == 3 else "rc%d" % rc, state),
                                 inject=(list(inj) if isinstance(inj, tuple) else inj), pre=case["pre"], size=len(data) if data else 0, expected=len(expected)))
                return items
            # bystanders untouched
            for b_ in before:
                pth = os.path.join(work, b_)
                if not os.path.exists(pth) or open(pth, "rb").read() != b"bystander":
                    items.append(_it("bystander_file_changed_under_fault", file=b_))
                    return items
            extra = set(_listing(work)) - set(before) - {rel}
            if extra:
                ctx.count("leftover_in_destination_dir_after_failure")
        return items
    finally:
        shutil.rmtree(scratch, ignore_errors=True)
        for d in os.listdir("/dev/shm") if os.path.isdir("/dev/shm") else []:
            if d.startswith("c17-" + os.path.basename(scratch)):
                shutil.rmtree(os.path.join("/dev/shm", d), ignore_errors=True)


def _same(fmt, a, b):
    if fmt != "rdf":
        return False
    from .c13 import _iso
    try:
        return _iso(a.decode("utf-8"), b.decode("utf-8"), "trig")
    except Exception:
        return False


def evidence_extra(classes):
    return {"child_runs": classes.get("child_runs", 0), "fault_points": classes.get("census_points", 0),
            "injected_runs_fired": classes.get("fault:write:fired", 0) + classes.get("fault:rename:fired", 0),
            "injector": "strace -e inject (syscall level)", "exhaustive_within_case": True}
