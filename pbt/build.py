"""recipe -> (ProvDocument built through the public API, expected content computed from intents)"""
import datetime
from collections import Counter

from . import spec
from .gen import normalise_attrs, _py_light, _exact


class Built:
    def __init__(self):
        self.doc = None
        self.scopes = []            # [doc, bundle1, ...]
        self.scope_ids = [None]     # intended bundle id URIs
        self.model = []             # per scope: list of model records (ordered)
        self.records = []           # (scope index, record object, model record) in creation order
        self.stats = Counter()
        self.no_exclude = False

    # expected content in the same shape as canon.canon()
    def expected(self):
        top = Counter(mrec_canon(m) for m in self.model[0])
        bundles = {}
        for i in range(1, len(self.scopes)):
            bundles[self.scope_ids[i]] = Counter(mrec_canon(m) for m in self.model[i])
        return (top, bundles)

    def expected_ordered(self):
        return ([mrec_canon(m) for m in self.model[0]],
                [(self.scope_ids[i], [mrec_canon(m) for m in self.model[i]]) for i in range(1, len(self.scopes))])


def mval(v):
    """model canonical value (same shape as canon.cval) from an abstract recipe value"""
    k = v["k"]
    if k == "tlit":
        return mval(v["py"])
    if k in ("str", "int", "bool"):
        return (k, v["v"])
    if k == "float":
        return ("float", float.fromhex(v["v"]).hex())
    if k == "dt":
        d = datetime.datetime.fromisoformat(v["v"])
        off = d.utcoffset()
        return ("dt", d.replace(tzinfo=None).isoformat(), None if off is None else int(off.total_seconds()))
    if k == "uri":
        return ("uri", v["v"])
    if k == "qn":
        return ("qn", v["ns"] + v["local"])
    if k == "lang":
        return ("lit", v["v"], spec.PROV_NS + "InternationalizedString", v["lang"])
    if k == "lit":
        return ("lit", v["v"], v["dt"]["ns"] + v["dt"]["local"], None)
    raise ValueError(k)


def mrec_canon(m):
    return (m["type"], m["id"], tuple(sorted(set(m["attrs"]), key=repr)))


def name_uri(n):
    return n["ns"] + n["local"]


# ---------------------------------------------------------------------------- spelling
def _registered_prefix(container, uri):
    for n in sorted(container.namespaces, key=lambda n: n.prefix):
        if n.uri == uri:
            return n.prefix
    return None


def spell(b, si, name, inherit=True):
    """Return the python object to pass to the library for this name in scope si.
    String spellings are only used when the public API says they denote the intended URI."""
    from prov.identifier import Namespace, QualifiedName
    scope = b.scopes[si]
    doc = b.scopes[0]
    as_ = name["as"]
    ns, local = name["ns"], name["local"]
    if ns == spec.PROV_NS and as_ == "str":
        b.stats["spell:str"] += 1
        return "prov:" + local
    if ns == spec.XSD_NS and as_ == "str":
        b.stats["spell:str"] += 1
        return "xsd:" + local
    if as_ == "str":
        p = _registered_prefix(scope, ns)
        if p is None and si != 0 and inherit:
            p = _registered_prefix(doc, ns)
            if p is not None and any(n.prefix == p for n in scope.namespaces):
                p = None   # shadowed in the bundle
            if p is not None:
                b.stats["spell:str-inherited"] += 1
        if p:
            b.stats["spell:str"] += 1
            return "%s:%s" % (p, local)
    elif as_ == "bare":
        d = scope.get_default_namespace()
        inherited = False
        if d is None and si != 0 and inherit:
            d = doc.get_default_namespace()
            inherited = True
        if d is not None and d.uri == ns and ":" not in local:
            b.stats["spell:bare"] += 1
            if inherited:
                b.stats["spell:bare-inherited"] += 1
            return local
    elif as_ == "uri":
        full = ns + local
        cands = list(scope.namespaces)
        if si != 0 and inherit:
            cands += list(doc.namespaces)
        if any(full.startswith(n.uri) and full.count(n.uri) == 1 for n in cands) and not any(
                full.startswith(n.prefix + ":") for n in cands if n.prefix):
            b.stats["spell:uri"] += 1
            return full
    b.stats["spell:qn"] += 1
    return QualifiedName(Namespace(name["prefix"], ns), local)


def pyvalue(b, si, v):
    from prov.model import Literal
    from prov.identifier import Identifier, Namespace, QualifiedName
    k = v["k"]
    if k in ("str", "int", "bool"):
        return v["v"]
    if k == "float":
        return float.fromhex(v["v"])
    if k == "dt":
        return datetime.datetime.fromisoformat(v["v"])
    if k == "uri":
        return Identifier(v["v"])
    if k == "qn":
        return QualifiedName(Namespace(v["prefix"], v["ns"]), v["local"])
    if k == "lang":
        return Literal(v["v"], langtag=v["lang"])
    if k == "lit":
        dt = v["dt"]
        return Literal(v["v"], QualifiedName(Namespace(dt["prefix"], dt["ns"]), dt["local"]))
    if k == "tlit":
        return Literal(v["v"], QualifiedName(Namespace("xsd", spec.XSD_NS), v["dt"]))
    raise ValueError(k)


def _time_py(t):
    if t["as"] == "str":
        return t["t"]
    return datetime.datetime.fromisoformat(t["t"])


def _time_model(t):
    d = datetime.datetime.fromisoformat(t["t"])
    off = d.utcoffset()
    return ("dt", d.replace(tzinfo=None).isoformat(), None if off is None else int(off.total_seconds()))


# ---------------------------------------------------------------------------- interpreter
def build(recipe, inherit=True, on_step=None):
    """Interpret the recipe with the library. Raises whatever the library raises."""
    from prov.model import ProvDocument
    b = Built()
    b.no_exclude = bool(recipe.get("no_exclude"))
    b.doc = ProvDocument()
    b.scopes = [b.doc]
    b.model = [[]]
    for op in recipe["ops"]:
        apply_op(b, op, inherit)
        if on_step is not None:
            on_step(b, op)
    return b


def apply_op(b, op, inherit=True):
    code = op[0]
    if code == "ns":
        si = op[1] % len(b.scopes)
        b.scopes[si].add_namespace(op[2], op[3])
        b.stats["op:ns"] += 1
    elif code == "default":
        si = op[1] % len(b.scopes)
        cur = b.scopes[si].get_default_namespace()
        if cur is None or cur.uri == op[2]:
            b.scopes[si].set_default_namespace(op[2])
            b.stats["op:default"] += 1
        else:
            b.stats["skipped:default-rebind"] += 1
    elif code == "bundle":
        name = op[1]
        uri = name_uri(name)
        if uri in b.scope_ids or len(b.scopes) > 3:
            b.stats["skipped:bundle"] += 1
            return
        how = op[2] if len(op) > 2 else "bundle"
        if how == "add_bundle":
            # a free-standing bundle attached afterwards: its identifier is only known in its own scope
            from prov.model import ProvBundle
            from prov.identifier import Namespace, QualifiedName
            qn = QualifiedName(Namespace(name["prefix"] or "fb", name["ns"]), name["local"])
            if not b.no_exclude and any(str(x.identifier) == str(qn) for x in b.doc.bundles):
                # known finding F-C01-1: two bundles printing the same identifier for different URIs share
                # one key in PROV-JSON; avoided by construction so that the search continues behind it
                b.stats["excluded_by_finding:F-C01-1"] += 1
                return
            nb = ProvBundle(identifier=qn)
            b.doc.add_bundle(nb)
            b.stats["op:add_bundle"] += 1
        else:
            nb = b.doc.bundle(spell(b, 0, name))
        b.scopes.append(nb)
        b.scope_ids.append(uri)
        b.model.append([])
        b.stats["op:bundle"] += 1
    elif code == "rec":
        _apply_rec(b, op, inherit)
    elif code == "attrs":
        if not b.records:
            b.stats["skipped:attrs"] += 1
            return
        si, rec, m = b.records[op[1] % len(b.records)]
        new = []
        for nm, val in op[2]:
            cand, dropped = normalise_attrs(m["intent_attrs"] + [[nm, val]])
            if dropped == 0 and len(cand) == len(m["intent_attrs"]) + 1:
                m["intent_attrs"].append([nm, val])
                new.append([nm, val])
        pairs = [(spell(b, si, nm, inherit), pyvalue(b, si, val)) for nm, val in new]
        if op[3] == "dict":
            # a dict cannot carry two values for one key: keep the pair form for those
            keys = [repr(k) if not isinstance(k, str) else k for k, _ in pairs]
            d = {}
            ok = True
            for k, v in pairs:
                hk = k
                try:
                    if hk in d:
                        ok = False
                        break
                except TypeError:
                    ok = False
                    break
                d[hk] = v
            if ok:
                rec.add_attributes(d)
            else:
                rec.add_attributes(pairs)
        else:
            rec.add_attributes(pairs)
        for nm, val in new:
            m["attrs"].append((name_uri(nm), mval(val)))
        b.stats["op:attrs"] += 1
    else:
        raise ValueError("unknown op %r" % (code,))


def _apply_rec(b, op, inherit):
    from prov.model import PROV_REC_CLS
    from prov.identifier import Namespace
    _, ssel, kind, ident, formal, attrs, via = op
    si = ssel % len(b.scopes)
    scope = b.scopes[si]
    pname, tname, is_el, fargs, mand, fac, fac_id = spec.KINDS[kind]
    m = {"type": spec.type_uri(kind), "id": None if ident is None else name_uri(ident), "attrs": [],
         "intent_attrs": [list(a) for a in attrs], "kind": kind, "scope": si}
    id_py = None if ident is None else spell(b, si, ident, inherit)
    kwargs = {}
    for arg, typ in fargs:
        if arg not in formal:
            continue
        a = formal[arg]
        if typ == "time":
            kwargs[arg] = _time_py(a)
            m["attrs"].append((spec.PROV_NS + arg, _time_model(a)))
        else:
            if "rec" in a:
                els = [(s, r, mm) for (s, r, mm) in b.records if mm["id"] is not None and spec.KINDS[mm["kind"]][2]]
                if els:
                    s, r, mm = els[a["rec"] % len(els)]
                    kwargs[arg] = r
                    m["attrs"].append((spec.PROV_NS + arg, ("qn", mm["id"])))
                    b.stats["ref:record-object"] += 1
                    continue
                a = {"name": {"ns": "http://a/", "local": "e1", "prefix": "ex", "as": "qn"}}
            kwargs[arg] = spell(b, si, a["name"], inherit)
            m["attrs"].append((spec.PROV_NS + arg, ("qn", name_uri(a["name"]))))
    other = [(spell(b, si, nm, inherit), pyvalue(b, si, val)) for nm, val in attrs]
    for nm, val in attrs:
        m["attrs"].append((name_uri(nm), mval(val)))
    if via == "new_record" or (ident is not None and not fac_id):
        PROV = Namespace("prov", spec.PROV_NS)
        fa = [(PROV[arg], v) for arg, v in kwargs.items()]
        rec = scope.new_record(PROV[tname], id_py, fa, other)
        b.stats["via:new_record"] += 1
    else:
        meth = getattr(scope, spec.ALIASES[kind] if via == "alias" and kind in spec.ALIASES else fac)
        if is_el:
            rec = meth(id_py, other_attributes=other, **kwargs)
        elif fac_id:
            rec = meth(identifier=id_py, other_attributes=other, **kwargs)
        else:
            # specialization / alternate / mention / membership: no identifier, no attributes through the factory
            rec = meth(**kwargs)
            if other:
                rec.add_attributes(other)
        b.stats["via:" + via] += 1
    b.model[si].append(m)
    b.records.append((si, rec, m))
    b.stats["kind:" + kind] += 1
    b.stats["rec:anon" if ident is None and not is_el else "rec:identified"] += 1
