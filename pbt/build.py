"""recipe -> (ProvDocument built through the public API, expected content computed from intents)"""
import datetime
from collections import Counter

from . import spec
from .gen import normalise_attrs, _py_light, _exact


class Built:
    def __init__(self):
        self.doc = None
        self.scopes = []            # [doc, bundle1, ...]
        self.scope_ids = [None]     # intended bundle id URIs
        self.model = []             # per scope: list of model records (ordered)
        self.records = []           # (scope index, record object, model record) in creation order
        self.stats = Counter()
        self.no_exclude = False
        self.ns_pool = {}           # (prefix, uri) -> caller-owned Namespace object, reused like a module-level constant
        self.requested = [set()]    # per scope: prefixes this scope was asked to bind (explicitly or through a
                                    # QualifiedName object resolved in it); such a prefix shadows the document's

    def note_qn(self, si, q):
        """remember that QualifiedName q is about to be resolved in scope si"""
        p = q.namespace.prefix
        self.requested[si].add(p or "dn")
        return q

    # expected content in the same shape as canon.canon()
    def expected(self):
        top = Counter(mrec_canon(m) for m in self.model[0])
        bundles = {}
        for i in range(1, len(self.scopes)):
            bundles[self.scope_ids[i]] = Counter(mrec_canon(m) for m in self.model[i])
        return (top, bundles)

    def expected_ordered(self):
        return ([mrec_canon(m) for m in self.model[0]],
                [(self.scope_ids[i], [mrec_canon(m) for m in self.model[i]]) for i in range(1, len(self.scopes))])


def mval(v):
    """model canonical value (same shape as canon.cval) from an abstract recipe value"""
    k = v["k"]
    if k == "tlit":
        return mval(v["py"])
    if k in ("str", "int", "bool"):
        return (k, v["v"])
    if k == "float":
        return ("float", float.fromhex(v["v"]).hex())
    if k == "dt":
        d = datetime.datetime.fromisoformat(v["v"])
        off = d.utcoffset()
        return ("dt", d.replace(tzinfo=None).isoformat(), None if off is None else int(off.total_seconds()))
    if k == "uri":
        return ("uri", v["v"])
    if k == "qn":
        return ("qn", v["ns"] + v["local"])
    if k == "lang":
        return ("lit", v["v"], spec.PROV_NS + "InternationalizedString", v["lang"])
    if k == "lit":
        return ("lit", v["v"], v["dt"]["ns"] + v["dt"]["local"], None)
    raise ValueError(k)


def mrec_canon(m):
    return (m["type"], m["id"], tuple(sorted(set(m["attrs"]), key=repr)))


def name_uri(n):
    return n["ns"] + n["local"]


# ---------------------------------------------------------------------------- spelling
def _registered_prefix(container, uri):
    for n in sorted(container.namespaces, key=lambda n: n.prefix):
        if n.uri == uri:
            return n.prefix
    return None


def spell(b, si, name, inherit=True):
    """Return the python object to pass to the library for this name in scope si.
    String spellings are only used when the public API says they denote the intended URI."""
    from prov.identifier import Namespace, QualifiedName
    scope = b.scopes[si]
    doc = b.scopes[0]
    as_ = name["as"]
    ns, local = name["ns"], name["local"]
    if ns == spec.PROV_NS and as_ == "str":
        b.stats["spell:str"] += 1
        return "prov:" + local
    if ns == spec.XSD_NS and as_ == "str":
        b.stats["spell:str"] += 1
        return "xsd:" + local
    if as_ == "str":
        p = _registered_prefix(scope, ns)
        if p is None and si != 0 and inherit:
            p = _registered_prefix(doc, ns)
            if p is not None and (any(n.prefix == p for n in scope.namespaces) or p in b.requested[si]):
                p = None   # shadowed in the bundle (bound there, or asked for there and renamed)
            if p is not None:
                b.stats["spell:str-inherited"] += 1
        if p:
            b.stats["spell:str"] += 1
            return "%s:%s" % (p, local)
    elif as_ == "bare":
        d = scope.get_default_namespace()
        inherited = False
        if d is None and si != 0 and inherit:
            d = doc.get_default_namespace()
            inherited = True
        if d is not None and d.uri == ns and ":" not in local:
            b.stats["spell:bare"] += 1
            if inherited:
                b.stats["spell:bare-inherited"] += 1
            return local
    elif as_ == "uri":
        full = ns + local
        cands = list(scope.namespaces)
        if si != 0 and inherit:
            cands += list(doc.namespaces)
        own = any(full.startswith(n.uri) for n in scope.namespaces)
        if any(full.startswith(n.uri) for n in cands) and not any(
                full.startswith(n.prefix + ":") for n in cands if n.prefix):
            b.stats["spell:uri"] += 1
            if not own:
                b.stats["spell:uri-inherited"] += 1
            return full
    b.stats["spell:qn"] += 1
    nsobj = b.ns_pool.setdefault((name["prefix"], ns), Namespace(name["prefix"], ns))
    return b.note_qn(si, nsobj[local])


def pyvalue(b, si, v):
    from prov.model import Literal
    from prov.identifier import Identifier, Namespace, QualifiedName
    k = v["k"]
    if k in ("str", "int", "bool"):
        return v["v"]
    if k == "float":
        return float.fromhex(v["v"])
    if k == "dt":
        return datetime.datetime.fromisoformat(v["v"])
    if k == "uri":
        return Identifier(v["v"])
    if k == "qn":
        b.stats["value:qn-object"] += 1
        return b.note_qn(si, QualifiedName(Namespace(v["prefix"], v["ns"]), v["local"]))
    if k == "lang":
        return Literal(v["v"], langtag=v["lang"])
    if k == "lit":
        dt = v["dt"]
        b.stats["value:qn-object"] += 1
        return Literal(v["v"], b.note_qn(si, QualifiedName(Namespace(dt["prefix"], dt["ns"]), dt["local"])))
    if k == "tlit":
        return Literal(v.get("native", v["v"]), QualifiedName(Namespace("xsd", spec.XSD_NS), v["dt"]))
    raise ValueError(k)


def _time_py(t):
    if t["as"] == "str":
        return t["t"]
    return datetime.datetime.fromisoformat(t["t"])


def _time_model(t):
    d = datetime.datetime.fromisoformat(t["t"])
    off = d.utcoffset()
    return ("dt", d.replace(tzinfo=None).isoformat(), None if off is None else int(off.total_seconds()))


# element convenience methods: relation kind -> (class of the receiving element, method name, accepts attributes=)
CONVENIENCE = {
    "generation": ("entity", "wasGeneratedBy", True), "invalidation": ("entity", "wasInvalidatedBy", True),
    "derivation": ("entity", "wasDerivedFrom", True), "attribution": ("entity", "wasAttributedTo", True),
    "alternate": ("entity", "alternateOf", False), "specialization": ("entity", "specializationOf", False),
    "membership": ("entity", "hadMember", False),
    "usage": ("activity", "used", True), "communication": ("activity", "wasInformedBy", True),
    "start": ("activity", "wasStartedBy", True), "end": ("activity", "wasEndedBy", True),
    "association": ("activity", "wasAssociatedWith", True),
    "delegation": ("agent", "actedOnBehalfOf", True),
}


# ---------------------------------------------------------------------------- interpreter
def build(recipe, inherit=True, on_step=None):
    """Interpret the recipe with the library. Raises whatever the library raises."""
    from prov.model import ProvDocument
    b = Built()
    b.no_exclude = bool(recipe.get("no_exclude"))
    b.doc = ProvDocument()
    b.scopes = [b.doc]
    b.model = [[]]
    for op in recipe["ops"]:
        apply_op(b, op, inherit)
        if on_step is not None:
            on_step(b, op)
    return b


def apply_op(b, op, inherit=True):
    code = op[0]
    if code == "ns":
        si = op[1] % len(b.scopes)
        b.requested[si].add(op[2])
        if (len(op[2]) + len(op[3])) % 2:
            # the same caller-owned Namespace object that also mints names elsewhere in the recipe
            from prov.identifier import Namespace
            b.scopes[si].add_namespace(b.ns_pool.setdefault((op[2], op[3]), Namespace(op[2], op[3])))
            b.stats["op:ns-object"] += 1
        else:
            b.scopes[si].add_namespace(op[2], op[3])
        b.stats["op:ns"] += 1
    elif code == "default":
        si = op[1] % len(b.scopes)
        cur = b.scopes[si].get_default_namespace()
        if cur is None or cur.uri == op[2]:
            b.scopes[si].set_default_namespace(op[2])
            b.stats["op:default"] += 1
        else:
            b.stats["skipped:default-rebind"] += 1
    elif code == "bundle":
        name = op[1]
        uri = name_uri(name)
        if uri in b.scope_ids or len(b.scopes) > 3:
            b.stats["skipped:bundle"] += 1
            return
        how = op[2] if len(op) > 2 else "bundle"
        if how == "add_bundle":
            # a free-standing bundle attached afterwards: its identifier is only known in its own scope
            from prov.model import ProvBundle
            from prov.identifier import Namespace, QualifiedName
            qn = QualifiedName(Namespace(name["prefix"] or "fb", name["ns"]), name["local"])
            # what the free bundle will print for its identifier in its own scope (reserved prefixes are renamed)
            printed = str(ProvBundle().valid_qualified_name(qn))
            if not b.no_exclude and any(str(x.identifier) in (str(qn), printed) for x in b.doc.bundles):
                # known finding F-C01-1: two bundles printing the same identifier for different URIs share
                # one key in PROV-JSON; avoided by construction so that the search continues behind it
                b.stats["excluded_by_finding:F-C01-1"] += 1
                return
            nb = ProvBundle(identifier=qn)
            b.doc.add_bundle(nb)
            b.stats["op:add_bundle"] += 1
        else:
            resolved = b.doc.valid_qualified_name(spell(b, 0, name))
            if not b.no_exclude and resolved is not None and any(str(x.identifier) == str(resolved) for x in b.doc.bundles):
                b.stats["excluded_by_finding:F-C01-1"] += 1   # same printed identifier as an attached free bundle
                return
            nb = b.doc.bundle(resolved if resolved is not None else spell(b, 0, name))
        b.requested.append({nb.identifier.namespace.prefix or "dn"})
        b.scopes.append(nb)
        b.scope_ids.append(uri)
        b.model.append([])
        b.stats["op:bundle"] += 1
    elif code == "rec":
        _apply_rec(b, op, inherit)
    elif code == "refused":
        # a call the library must refuse (a second, different value for a formal argument that is set): the caller catches
        # the error and goes on using the document - which must be exactly what it was
        if not b.records:
            return
        from prov.model import ProvException
        from prov.identifier import Namespace
        import datetime
        si, rec, m = b.records[op[1] % len(b.records)]
        fargs = [(a, t) for a, t in spec.formal_args(m["kind"]) if any(x == spec.PROV_NS + a for x, _ in m["attrs"])]
        fargs = [(a, t) for a, t in fargs if not (m["kind"] == "membership" and a == "entity")]
        if not fargs:
            return
        arg, typ = fargs[op[2] % len(fargs)]
        value = Namespace("refused", "http://refused.example/")["other%d" % op[2]] if typ == "ref" else datetime.datetime(1066, 10, 14, 9, op[2] % 60)
        try:
            rec.add_attributes([(Namespace("prov", spec.PROV_NS)[arg], value)])
            b.stats["refused:accepted"] += 1     # (C05 decides whether that is right; the model follows the document)
            m["attrs"].append((spec.PROV_NS + arg, ("qn", value.uri) if typ == "ref" else ("dt", value.isoformat(), None)))
        except ProvException:
            b.stats["op:refused_call"] += 1
    elif code == "attrs":
        if not b.records:
            b.stats["skipped:attrs"] += 1
            return
        si, rec, m = b.records[op[1] % len(b.records)]
        new = []
        for nm, val in op[2]:
            cand, dropped = normalise_attrs(m["intent_attrs"] + [[nm, val]])
            if dropped == 0 and len(cand) == len(m["intent_attrs"]) + 1:
                m["intent_attrs"].append([nm, val])
                new.append([nm, val])
        if si != 0 and inherit:
            # same rule as in _apply_rec: no document-level spellings next to QualifiedName objects in one call
            # (decided on the spellings actually chosen: a 'str' preference may fall back to an object)
            snap = (Counter(b.stats), [set(x) for x in b.requested])
            inh = lambda: b.stats["spell:str-inherited"] + b.stats["spell:bare-inherited"] + b.stats["spell:uri-inherited"]
            objs = lambda: b.stats["spell:qn"] + b.stats["value:qn-object"]
            i0, o0, u0 = inh(), objs(), b.stats["spell:uri-inherited"]
            [(spell(b, si, nm, True), pyvalue(b, si, val)) for nm, val in new]
            mixed = inh() > i0 and (objs() > o0 or (b.stats["spell:uri-inherited"] > u0 and inh() - i0 >= 2))
            b.stats, b.requested = snap
            if mixed:
                b.stats["spell:inherited-withdrawn"] += 1
                inherit = False
        pairs = [(spell(b, si, nm, inherit), pyvalue(b, si, val)) for nm, val in new]
        if op[3] == "dict":
            # a dict cannot carry two values for one key: keep the pair form for those
            keys = [repr(k) if not isinstance(k, str) else k for k, _ in pairs]
            d = {}
            ok = True
            for k, v in pairs:
                hk = k
                try:
                    if hk in d:
                        ok = False
                        break
                except TypeError:
                    ok = False
                    break
                d[hk] = v
            if ok:
                rec.add_attributes(d)
            else:
                rec.add_attributes(pairs)
        else:
            rec.add_attributes(pairs)
        for nm, val in new:
            m["attrs"].append((name_uri(nm), mval(val)))
        b.stats["op:attrs"] += 1
    else:
        raise ValueError("unknown op %r" % (code,))


def _apply_rec(b, op, inherit):
    """One API call resolves several names in sequence, and an earlier QualifiedName object can change what a later
    string relies on (a bundle adopting a default namespace, a renamed prefix request).  Spellings relying on the
    *document's* bindings are therefore only used in calls that carry no caller-made QualifiedName object."""
    if inherit and b.scopes and (op[1] % len(b.scopes)) != 0:
        snap = (Counter(b.stats), [set(x) for x in b.requested])
        n_inh = b.stats["spell:str-inherited"] + b.stats["spell:bare-inherited"] + b.stats["spell:uri-inherited"]
        n_qn = b.stats["spell:qn"] + b.stats["value:qn-object"] + b.stats["ref:record-object"]
        probe = _Probe(b)
        _apply_rec2(probe, op, True, dry=True)
        now_inh = b.stats["spell:str-inherited"] + b.stats["spell:bare-inherited"] + b.stats["spell:uri-inherited"]
        used_inh = now_inh > n_inh
        used_qn = (b.stats["spell:qn"] + b.stats["value:qn-object"] + b.stats["ref:record-object"]) > n_qn
        # a full URI compacted through a DOCUMENT namespace is re-homed in the bundle, possibly under a renamed prefix
        # (q_1) - which may be the very prefix another inherited string of the same call relies on
        uri_with_other = b.stats["spell:uri-inherited"] > snap[0]["spell:uri-inherited"] and now_inh - n_inh >= 2
        b.stats, b.requested = snap[0], snap[1]
        if used_inh and (used_qn or uri_with_other):
            b.stats["spell:inherited-withdrawn"] += 1
            inherit = False
    return _apply_rec2(b, op, inherit)


class _Probe:
    """dry-run view of a Built (spelling decisions only, nothing is sent to the library)"""
    def __init__(self, b):
        self.__dict__["b"] = b

    def __getattr__(self, k):
        return getattr(self.b, k)


def _apply_rec2(b, op, inherit, dry=False):
    from prov.model import PROV_REC_CLS
    from prov.identifier import Namespace
    _, ssel, kind, ident, formal, attrs, via = op
    si = ssel % len(b.scopes)
    scope = b.scopes[si]
    pname, tname, is_el, fargs, mand, fac, fac_id = spec.KINDS[kind]
    m = {"type": spec.type_uri(kind), "id": None if ident is None else name_uri(ident), "attrs": [],
         "intent_attrs": [list(a) for a in attrs], "kind": kind, "scope": si}
    id_py = None if ident is None else spell(b, si, ident, inherit)
    kwargs = {}
    for arg, typ in fargs:
        if arg not in formal:
            continue
        a = formal[arg]
        if typ == "time":
            kwargs[arg] = _time_py(a)
            m["attrs"].append((spec.PROV_NS + arg, _time_model(a)))
        else:
            if "rec" in a:
                els = [(s, r, mm) for (s, r, mm) in b.records if mm["id"] is not None and spec.KINDS[mm["kind"]][2]]
                if els:
                    s, r, mm = els[a["rec"] % len(els)]
                    kwargs[arg] = r
                    b.note_qn(si, r.identifier)
                    m["attrs"].append((spec.PROV_NS + arg, ("qn", mm["id"])))
                    b.stats["ref:record-object"] += 1
                    continue
                a = {"name": {"ns": "http://a/", "local": "e1", "prefix": "ex", "as": "qn"}}
            kwargs[arg] = spell(b, si, a["name"], inherit)
            m["attrs"].append((spec.PROV_NS + arg, ("qn", name_uri(a["name"]))))
    other = [(spell(b, si, nm, inherit), pyvalue(b, si, val)) for nm, val in attrs]
    for nm, val in attrs:
        m["attrs"].append((name_uri(nm), mval(val)))
    if dry:
        return None
    conv = None
    if via == "convenience" and ident is None and kind in CONVENIENCE and fargs and fargs[0][0] in formal:
        cls_kind, meth_name, takes_attrs = CONVENIENCE[kind]
        els = [(s, r, mm) for (s, r, mm) in b.records if mm["kind"] == cls_kind and s == si]
        if els:
            sel = formal[fargs[0][0]].get("rec", 0) if isinstance(formal[fargs[0][0]], dict) else 0
            conv = els[sel % len(els)]
    if conv is not None:
        s0, r0, m0 = conv
        # the element itself is the first formal argument
        m["attrs"] = [(a, v) for (a, v) in m["attrs"] if a != spec.PROV_NS + fargs[0][0]]
        m["attrs"].insert(0, (spec.PROV_NS + fargs[0][0], ("qn", m0["id"])))
        pos = [kwargs.get(arg) for arg, _ in fargs[1:]]
        before = len(scope.get_records())
        if takes_attrs:
            getattr(r0, meth_name)(*pos, attributes=other)
        else:
            getattr(r0, meth_name)(*pos)
        rec = scope.get_records()[-1]
        if not takes_attrs and other:
            rec.add_attributes(other)
        b.stats["via:convenience"] += 1
    elif via == "new_record" or (ident is not None and not fac_id):
        PROV = Namespace("prov", spec.PROV_NS)
        fa = [(PROV[arg], v) for arg, v in kwargs.items()]
        rec = scope.new_record(PROV[tname], id_py, fa, other)
        b.stats["via:new_record"] += 1
    else:
        meth = getattr(scope, spec.ALIASES[kind] if via == "alias" and kind in spec.ALIASES else fac)
        if is_el:
            rec = meth(id_py, other_attributes=other, **kwargs)
        elif fac_id:
            rec = meth(identifier=id_py, other_attributes=other, **kwargs)
        else:
            # specialization / alternate / mention / membership: no identifier, no attributes through the factory
            rec = meth(**kwargs)
            if other:
                rec.add_attributes(other)
        b.stats["via:" + ("factory" if via == "convenience" else via)] += 1
    b.model[si].append(m)
    b.records.append((si, rec, m))
    b.stats["kind:" + kind] += 1
    b.stats["rec:anon" if ident is None and not is_el else "rec:identified"] += 1


# ------------------------------------------------------------- content-level construction (C04, C08, C09 ...)
def content_of(b):
    """abstract content of a built recipe: {"doc": [rec...], "bundles": [[uri, [rec...]], ...]}
    rec = {"type": uri, "id": uri|None, "attrs": [[attr uri, canonical value], ...]} (formal arguments included)"""
    def rec(m):
        seen = []
        for a in m["attrs"]:
            if a not in seen:
                seen.append(a)
        return {"type": m["type"], "id": m["id"], "attrs": [[a, list(v)] for a, v in seen]}
    return {"doc": [rec(m) for m in b.model[0]],
            "bundles": [[b.scope_ids[i], [rec(m) for m in b.model[i]]] for i in range(1, len(b.scopes))]}


def split_uri(uri):
    for i in range(len(uri) - 1, -1, -1):
        if uri[i] in "#/:" and i < len(uri) - 1:
            return uri[:i + 1], uri[i + 1:]
    for i in range(len(uri) - 1, -1, -1):
        if uri[i] in "#/:" and i > 0:
            return uri[:i], uri[i:]
    return uri[:1], uri[1:]


class _Names:
    def __init__(self, style=0):
        self.style = style
        self.ns = {}

    def qn(self, uri):
        from prov.identifier import Namespace, QualifiedName
        ns, local = split_uri(uri)
        if ns == spec.PROV_NS:
            return QualifiedName(Namespace("prov", ns), local)
        if ns not in self.ns:
            self.ns[ns] = Namespace("%s%d" % ("nmkq"[self.style % 4], len(self.ns) + self.style), ns)
        return QualifiedName(self.ns[ns], local)


def value_from_canon(cv, names):
    from prov.model import Literal
    from prov.identifier import Identifier
    k = cv[0]
    if k in ("str", "int", "bool"):
        return cv[1]
    if k == "float":
        return float.fromhex(cv[1])
    if k == "dt":
        d = datetime.datetime.fromisoformat(cv[1])
        if cv[2] is not None:
            d = d.replace(tzinfo=datetime.timezone(datetime.timedelta(seconds=cv[2])))
        return d
    if k == "uri":
        return Identifier(cv[1])
    if k == "qn":
        return names.qn(cv[1])
    if k == "lit":
        if cv[3]:
            return Literal(cv[1], langtag=cv[3])
        return Literal(cv[1], names.qn(cv[2]))
    raise ValueError(cv)


def construct(content, order=None, style=0):
    """Build a document from abstract content through new_record with QualifiedName objects.
    `order`: optional list of ints used to permute records inside each container."""
    from prov.model import ProvDocument
    names = _Names(style)
    doc = ProvDocument()

    def fill(container, recs, salt):
        idx = list(range(len(recs)))
        if order:
            idx.sort(key=lambda i: (order[(i + salt) % len(order)], i))
        for i in idx:
            r = recs[i]
            attrs = [(names.qn(a), value_from_canon(tuple(v) if not isinstance(v, tuple) else v, names))
                     for a, v in r["attrs"]]
            container.new_record(names.qn(r["type"]), None if r["id"] is None else names.qn(r["id"]), attrs)

    fill(doc, content["doc"], 0)
    bl = list(content["bundles"])
    if order and len(bl) > 1 and order[0] % 2:
        bl.reverse()
    for j, (uri, recs) in enumerate(bl):
        fill(doc.bundle(names.qn(uri)), recs, j + 1)
    return doc


def content_canon(content):
    """canon-shaped expected value of abstract content"""
    def c(r):
        return (r["type"], r["id"], tuple(sorted(set((a, tuple(v)) for a, v in r["attrs"]), key=repr)))
    return (Counter(c(r) for r in content["doc"]),
            {uri: Counter(c(r) for r in recs) for uri, recs in content["bundles"]})
