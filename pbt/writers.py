"""Own (library-independent) writers of PROV-JSON and PROV-XML in many dialects, driven by abstract content.
content = {"doc": [rec...], "bundles": [[uri, [rec...]], ...]},  rec = {"type": uri, "id": uri|None, "attrs": [[uri, cv]]}
`dial` is a list of small integers (drawn by Hypothesis) that selects the dialect features."""
import json
from xml.sax.saxutils import escape, quoteattr

from . import spec
from .build import split_uri

PROV = spec.PROV_NS
XSD = spec.XSD_NS
TYPE_TO_KIND = {spec.type_uri(k): k for k in spec.KINDS}


class _Pick:
    def __init__(self, dial):
        self.dial = list(dial) or [0]
        self.i = 0
        self.features = set()

    def __call__(self, n, feature=None):
        v = self.dial[self.i % len(self.dial)] % n
        self.i += 1
        if feature and v:
            self.features.add(feature)
        return v


def _namespaces(content):
    out = []
    for recs in [content["doc"]] + [r for _, r in content["bundles"]]:
        for r in recs:
            uris = [r["type"]] + ([r["id"]] if r["id"] else [])
            for a, v in r["attrs"]:
                uris.append(a)
                if v[0] == "qn":
                    uris.append(v[1])
                if v[0] == "lit" and v[2]:
                    uris.append(v[2])
            for u in uris:
                ns = split_uri(u)[0]
                if ns not in out and ns not in (PROV, XSD):
                    out.append(ns)
    for u, _ in content["bundles"]:
        ns = split_uri(u)[0]
        if ns not in out and ns not in (PROV, XSD):
            out.append(ns)
    return out


# =============================================================================== PROV-JSON
def write_json(content, dial):
    pick = _Pick(dial)
    nss = _namespaces(content)
    default_ns = nss[pick(len(nss) + 1) - 1] if nss and pick(3, "json:default_ns") else None
    if default_ns is not None:
        pick.features.add("json:default_ns")
    prefixes = {}
    for i, ns in enumerate(nss):
        if ns != default_ns:
            prefixes[ns] = "n%d" % i
    # where prefixes are declared: all on the document, or the ones only a bundle uses on that bundle
    per_bundle = bool(pick(2))
    two_formal = pick(12) == 7     # rarely: a formal attribute holding two different values

    def name(u, scope_prefixes=None):
        ns, local = split_uri(u)
        if ns == PROV:
            return "prov:" + local
        if ns == XSD:
            return "xsd:" + local
        if ns == default_ns and ":" not in local:
            return local
        if ns == default_ns:
            prefixes.setdefault(ns, "dflt")
        return "%s:%s" % (prefixes.setdefault(ns, "x%d" % len(prefixes)), local)

    def value(cv):
        k = cv[0]
        if k == "str":
            return {"$": cv[1], "type": "xsd:string"} if pick(4, "json:typed_string") == 1 else cv[1]
        if k == "int":
            m = pick(3)
            if m == 1:
                pick.features.add("json:int_typed_number")
                return {"$": cv[1], "type": "xsd:int"}
            if m == 2:
                pick.features.add("json:int_typed_string")
                return {"$": str(cv[1]), "type": "xsd:long" if pick(2) else "xsd:int"}
            return cv[1] if abs(cv[1]) < 2 ** 53 else {"$": str(cv[1]), "type": "xsd:int"}
        if k == "float":
            f = float.fromhex(cv[1])
            m = pick(3)
            if m == 1:
                pick.features.add("json:double_typed_string")
                return {"$": repr(f), "type": "xsd:double"}
            if m == 2 and f != int(f):
                return f
            return {"$": f, "type": "xsd:double"}
        if k == "bool":
            m = pick(3)
            if m == 1:
                pick.features.add("json:bool_typed_string")
                return {"$": "true" if cv[1] else "false", "type": "xsd:boolean"}
            if m == 2:
                pick.features.add("json:bool_typed_digit")
                return {"$": "1" if cv[1] else "0", "type": "xsd:boolean"}
            return cv[1]
        if k == "dt":
            return {"$": _iso(cv), "type": "xsd:dateTime"}
        if k == "uri":
            return {"$": cv[1], "type": "xsd:anyURI"}
        if k == "qn":
            return {"$": name(cv[1]), "type": "prov:QUALIFIED_NAME"}
        if k == "lit":
            if cv[3]:
                return {"$": cv[1], "lang": cv[3]}
            return {"$": cv[1], "type": name(cv[2])}
        raise ValueError(cv)

    def container(recs):
        out = {}
        anon = 0
        # dialect: several anonymous bare memberships of one collection as ONE statement listing the entities
        merged = {}
        rest = []
        if pick(2):
            for r in recs:
                if r["type"] == PROV + "Membership" and r["id"] is None and len(r["attrs"]) == 2:
                    d = dict((a, tuple(v)) for a, v in r["attrs"])
                    col = d.get(PROV + "collection")
                    ent = d.get(PROV + "entity")
                    if col and ent:
                        merged.setdefault(col, []).append(ent)
                        continue
                rest.append(r)
        else:
            rest = list(recs)
        for r in rest:
            kind = TYPE_TO_KIND[r["type"]]
            pname = spec.provn_name(kind)
            formal = {PROV + a: t for a, t in spec.formal_args(kind)}
            if r["id"] is None:
                anon += 1
                key = "_:a%d" % anon
            else:
                key = name(r["id"])
            obj = {}
            multi = {}
            for a, v in r["attrs"]:
                v = tuple(v)
                if a in formal:
                    s = name(v[1]) if formal[a] == "ref" else _iso(v)
                    if two_formal and formal[a] == "ref" and not pick.features & {"json:two_values_for_formal"} and pick(3) == 1 \
                            and not (kind == "membership" and a == PROV + "entity"):
                        obj[name(a)] = [s, s + "_other"]
                        pick.features.add("json:two_values_for_formal")
                    else:
                        obj[name(a)] = [s] if pick(5, "json:formal_in_array") == 1 else s
                else:
                    multi.setdefault(name(a), []).append(value(v))
            for k2, vals in multi.items():
                if len(vals) == 1 and pick(4, "json:single_value_in_array") != 1:
                    obj[k2] = vals[0]
                else:
                    obj[k2] = vals
            if pick(2):
                obj = dict(reversed(list(obj.items())))
            slot = out.setdefault(pname, {})
            if key in slot:
                if isinstance(slot[key], list):
                    slot[key].append(obj)
                else:
                    slot[key] = [slot[key], obj]
                pick.features.add("json:record_array")
            else:
                slot[key] = [obj] if pick(6, "json:singleton_record_array") == 1 else obj
        one_array = bool(merged) and pick(2)
        for col, ents in merged.items():
            anon += 1
            pick.features.add("json:multi_entity_membership" if len(ents) > 1 else "json:membership")
            obj = {"prov:collection": name(col[1]),
                   "prov:entity": [name(e[1]) for e in ents] if len(ents) > 1 else name(ents[0][1])}
            if one_array:
                # all anonymous memberships as ONE array of statement objects under a single blank identifier
                out.setdefault("hadMember", {}).setdefault("_:members", []).append(obj)
                pick.features.add("json:membership_record_array")
            else:
                out.setdefault("hadMember", {})["_:m%d" % anon] = obj
        return out

    doc = container(content["doc"])
    # namespaces used by exactly one bundle and nothing else may be declared on that bundle only
    use = {}
    for ns in _namespaces({"doc": content["doc"], "bundles": []}):
        use.setdefault(ns, set()).add("doc")
    for u, recs in content["bundles"]:
        use.setdefault(split_uri(u)[0], set()).add("doc")      # bundle identifiers are kept resolvable at document level
        for ns in _namespaces({"doc": recs, "bundles": []}):
            use.setdefault(ns, set()).add(u)
    top = dict(doc)
    bl = {}
    moved = set()
    for u, recs in content["bundles"]:
        body = container(recs)
        own = {ns for ns, where in use.items() if where == {u} and ns in prefixes}
        if per_bundle and own:
            body["prefix"] = {prefixes[ns]: ns for ns in own}
            moved |= own
            pick.features.add("json:bundle_prefix_block")
            if default_ns is not None and pick(2):
                body["prefix"]["default"] = default_ns
            # a second, redundant prefix for one of the bundle's own namespaces that SHADOWS a document-level prefix
            # (legitimate: the bundle does not use that document namespace); sibling bundles must not be affected
            used_here = set(_namespaces({"doc": recs, "bundles": []})) | {split_uri(u)[0]}
            cands = [ns for ns in prefixes if ns not in used_here and ns not in own and use.get(ns)]
            if cands and pick(2):
                body["prefix"][prefixes[cands[0]]] = sorted(own)[0]
                pick.features.add("json:bundle_alias_shadows_doc_prefix")
        bl[name(u)] = body
    pfx = {p: ns for ns, p in prefixes.items() if ns not in moved}
    if default_ns is not None:
        pfx["default"] = default_ns
    if pfx:
        top["prefix"] = pfx
    if bl:
        top["bundle"] = bl
    if pick(2):
        top = dict(reversed(list(top.items())))
    return json.dumps(top, indent=pick(3), ensure_ascii=bool(pick(2))), pick.features


def _iso(cv):
    import datetime
    d = datetime.datetime.fromisoformat(cv[1])
    if cv[2] is not None:
        d = d.replace(tzinfo=datetime.timezone(datetime.timedelta(seconds=cv[2])))
    s = d.isoformat()
    return s


# =============================================================================== PROV-XML
def write_xml(content, dial):
    pick = _Pick(dial)
    nss = _namespaces(content)
    default_ns = nss[pick(len(nss) + 1) - 1] if nss and pick(3) else None
    if default_ns is not None:
        pick.features.add("xml:default_ns")
    prefixes = {ns: "n%d" % i for i, ns in enumerate(nss)}
    # element names that live in the XML Schema namespace itself need a declaration of their own: the conventional
    # xmlns:xsd of PROV-XML omits the '#'
    prefixes[XSD] = "xsh"
    decl_mode = pick(3)      # 0: all on root, 1: on each record element, 2: on bundleContent / root mix
    if decl_mode:
        pick.features.add("xml:local_ns_declarations")

    def decls(nsset):
        out = []
        for ns in sorted(nsset):
            if ns == default_ns:
                out.append(' xmlns=%s' % quoteattr(ns))
                out.append(' xmlns:%s=%s' % (prefixes[ns], quoteattr(ns)))
            else:
                out.append(' xmlns:%s=%s' % (prefixes[ns], quoteattr(ns)))
        return "".join(out)

    def qname(u, used):
        ns, local = split_uri(u)
        if ns == PROV:
            return "prov:" + local
        if ns == XSD:
            return "xsd:" + local
        used.add(ns)
        if ns == default_ns and pick(2):
            return local
        return "%s:%s" % (prefixes[ns], local)

    def tag(u, used):
        ns, local = split_uri(u)
        if ns == PROV:
            return "prov:" + local
        used.add(ns)
        if ns == default_ns and pick(2):
            return local
        return "%s:%s" % (prefixes[ns], local)

    def value_el(a, cv, used):
        """an attribute element; sometimes the element declares the prefix of its own name on itself - under a prefix
        nothing else uses, or re-binding (shadowing) a prefix the root declares for another namespace"""
        txt = _value_el(a, cv, used)
        ns, local = split_uri(a)
        t = txt[1:].split(">")[0].split(" ")[0].rstrip("/")
        if ns in (PROV, XSD) or ":" not in t or cv[0] in ("qn", "lit") or pick(5) != 1:
            return txt
        others = [p for n, p in sorted(prefixes.items()) if n != ns and n != XSD]
        if others and pick(2):
            newp = others[0]
            pick.features.add("xml:prefix_rebound_on_attribute_element")
        else:
            newp = "loc"
            pick.features.add("xml:prefix_declared_on_attribute_element")
        nt = "%s:%s" % (newp, local)
        head = "<%s xmlns:%s=%s" % (nt, newp, quoteattr(ns))
        txt = head + txt[1 + len(t):]
        if txt.endswith("</%s>" % t):
            txt = txt[:-len("</%s>" % t)] + "</%s>" % nt
        return txt

    def _value_el(a, cv, used):
        t = tag(a, used)
        k = cv[0]
        if k == "str":
            ty = ' xsi:type="xsd:string"' if pick(3, "xml:typed_string") == 1 else ""
            return "<%s%s>%s</%s>" % (t, ty, escape(cv[1]), t) if cv[1] or pick(2) else "<%s%s/>" % (t, ty)
        if k == "int":
            return '<%s xsi:type="xsd:%s">%d</%s>' % (t, "long" if pick(2) else "int", cv[1], t)
        if k == "float":
            return '<%s xsi:type="xsd:double">%s</%s>' % (t, repr(float.fromhex(cv[1])), t)
        if k == "bool":
            m = pick(2, "xml:bool_digit")
            return '<%s xsi:type="xsd:boolean">%s</%s>' % (t, ("1" if cv[1] else "0") if m else ("true" if cv[1] else "false"), t)
        if k == "dt":
            return '<%s xsi:type="xsd:dateTime">%s</%s>' % (t, _iso(cv), t)
        if k == "uri":
            return '<%s xsi:type="xsd:anyURI">%s</%s>' % (t, escape(cv[1]), t)
        if k == "qn":
            return '<%s xsi:type="xsd:QName">%s</%s>' % (t, escape(qname(cv[1], used)), t)
        if k == "lit":
            if cv[3]:
                return '<%s xml:lang=%s>%s</%s>' % (t, quoteattr(cv[3]), escape(cv[1]), t)
            return '<%s xsi:type=%s>%s</%s>' % (t, quoteattr(qname(cv[2], used)), escape(cv[1]), t)
        raise ValueError(cv)

    def record(r, indent):
        used = set()
        kind = TYPE_TO_KIND[r["type"]]
        el = spec.provn_name(kind)
        el_type = ""
        attrs = [(a, tuple(v)) for a, v in r["attrs"]]
        # dialect: subtype element instead of prov:type
        for i, (a, v) in enumerate(attrs):
            if a == PROV + "type" and v[0] == "qn" and v[1].startswith(PROV):
                local = v[1][len(PROV):]
                for sub, (base, tn) in spec.XML_SUBTYPES.items():
                    if tn == local and base == kind:
                        how = pick(3)
                        if how == 1:
                            el = sub
                            del attrs[i]
                            pick.features.add("xml:subtype_element")
                        elif how == 2:
                            el_type = ' xsi:type="prov:%s"' % local
                            del attrs[i]
                            pick.features.add("xml:xsi_type_on_record_element")
                        break
                if el != spec.provn_name(kind) or el_type:
                    break
        formal = [(PROV + a, t) for a, t in spec.formal_args(kind)]
        fmap = dict(formal)
        order = {a: i for i, (a, _) in enumerate(formal)}
        common = {PROV + n: 100 + i for i, n in enumerate(["label", "location", "role", "type", "value"])}
        attrs.sort(key=lambda av: (order.get(av[0], common.get(av[0], 1000)), av[0] if av[0] not in order and av[0] not in common else ""))
        body = []
        for a, v in attrs:
            if a in fmap and fmap[a] == "ref":
                body.append('<prov:%s prov:ref=%s/>' % (a[len(PROV):], quoteattr(qname(v[1], used))))
            elif a in fmap:
                t = _iso(v)
                if "T00:00:00" in t and "." not in t and pick(2, "xml:end_of_day_time") == 1:
                    # xsd:dateTime also spells midnight as hour 24 of the day before: the same instant
                    import datetime as _dt
                    day = _dt.date.fromisoformat(t[:10]) - _dt.timedelta(days=1)
                    t = day.isoformat() + "T24:00:00" + t[19:]
                    pick.features.add("xml:end_of_day_time")
                body.append('<prov:%s>%s</prov:%s>' % (a[len(PROV):], t, a[len(PROV):]))
            else:
                body.append(value_el(a, v, used))
        ident = ""
        if r["id"] is not None:
            ident = " prov:id=%s" % quoteattr(qname(r["id"], used))
        comment = "<!-- a comment -->" if pick(5, "xml:comments") == 1 else ""
        sep = "\n" + indent + "  " if pick(2) else ""
        d = decls(used) if decl_mode == 1 else ""
        if not body and pick(2):
            return "%s<prov:%s%s%s%s/>" % (indent, el, ident, el_type, d), used
        return "%s<prov:%s%s%s%s>%s%s%s%s</prov:%s>" % (indent, el, ident, el_type, d, comment, sep, sep.join(body), "\n" + indent if sep else "", el), used

    lines = []
    all_used = set()
    top_recs = []
    for r in content["doc"]:
        txt, used = record(r, "  ")
        top_recs.append(txt)
        all_used |= used
    bundle_txt = []
    for u, recs in content["bundles"]:
        used_b = set()
        inner = []
        for r in recs:
            txt, used = record(r, "    ")
            inner.append(txt)
            used_b |= used
        idu = set()
        bid = qname(u, idu)
        if decl_mode == 2:
            d = decls(used_b | idu)
        else:
            d = ""
            all_used |= used_b | idu
        bundle_txt.append('  <prov:bundleContent prov:id=%s%s>\n%s\n  </prov:bundleContent>' % (quoteattr(bid), d, "\n".join(inner)))
    root_decl = decls(all_used if decl_mode != 1 else (all_used if decl_mode == 0 else set()))
    if decl_mode == 1:
        # record-level declarations cover the records; the root still needs those used by bundle ids
        need = set()
        for u, _ in content["bundles"]:
            need.add(split_uri(u)[0])
        root_decl = decls(need - {PROV, XSD})
    head = ('<?xml version="1.0" encoding="UTF-8"?>\n<prov:document xmlns:prov="http://www.w3.org/ns/prov#" '
            'xmlns:xsd="http://www.w3.org/2001/XMLSchema" xmlns:xsi="http://www.w3.org/2001/XMLSchema-instance"%s>' % root_decl)
    return "\n".join([head] + top_recs + bundle_txt + ["</prov:document>"]), pick.features
