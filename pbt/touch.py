"""Read-only use of a document through public accessors.  None of it may change what the document is, prints or
compares as; several seeded changes only manifested after such reads (empty default sets, caches, lazily filled indexes)."""


def readonly_touch(doc, sel=0, foreign_lookups=True):
    from prov import model as m
    from prov.identifier import Namespace, QualifiedName
    absent = QualifiedName(Namespace("absentns", "http://absent.example/"), "nothing%d" % (sel % 3))
    conts = [doc] + list(getattr(doc, "bundles", ()))
    for c in conts:
        if foreign_lookups:
            # (a lookup by a QualifiedName of an unknown namespace registers that namespace: not covered by C13's
            # list of exporting operations, so C13 leaves these two out)
            c.get_record(absent)
            c.get_record("absentns:other")
        list(c.get_records(m.ProvEntity))
        list(c.get_records((m.ProvRelation,)))
        c.records
        c.namespaces
        c.get_default_namespace()
        c.get_registered_namespaces()
        for r in c.get_records():
            r.args
            r.formal_attributes
            r.extra_attributes
            r.attributes
            r.label
            r.value
            r.get_asserted_types()
            r.get_attribute(m.PROV_LABEL)
            r.get_attribute(m.PROV["location"])
            repr(r)
            str(r)
            hash(r)
            r.is_element()
            if isinstance(r, m.ProvActivity):
                r.get_startTime()
                r.get_endTime()
            if r.identifier is not None:
                c.get_record(r.identifier)
    if sel % 2:
        try:
            doc.unified()
        except m.ProvException:
            pass
        doc.flattened() if doc.is_document() else None
    doc == doc
