#!/bin/sh
# Offline setup: make sure hypothesis is importable by /venv/bin/python; record available external tools.
cd "$(dirname "$0")" || exit 2
if ! /venv/bin/python -c "import hypothesis" 2>/dev/null; then
  PIP_NO_INDEX=1 /venv/bin/pip install --no-index --find-links /opt/veriftools/wheels hypothesis || exit 1
fi
mkdir -p .deps evidence replays .work
if ! PYTHONPATH=.deps /venv/bin/python -c "import atheris" 2>/dev/null; then
  PIP_NO_INDEX=1 /venv/bin/pip install --no-index --find-links /opt/veriftools/wheels --target .deps atheris >/dev/null 2>&1 || echo "note: atheris not installed (C11 thorough fuzz campaign will be skipped)"
fi
/venv/bin/python - <<'PY'
import json, shutil
caps = {t: shutil.which(t) for t in ("dot", "strace")}
json.dump(caps, open(".caps.json", "w"))
print("caps:", caps)
PY
/venv/bin/python -c "import sys; sys.path.insert(0,'/repo/src'); import prov, hypothesis; print('prov from', prov.__file__, 'hypothesis', hypothesis.__version__)"
