"""python3-vt tools/validate.py : validate MANIFEST.json and every evidence file against the schemas"""
import json, glob, jsonschema, sys, os
os.chdir(os.path.dirname(os.path.dirname(os.path.abspath(__file__))))
ok = True
jsonschema.validate(json.load(open("MANIFEST.json")), json.load(open("/root/.vp/MANIFEST.schema.json")))
print("MANIFEST ok")
sch = json.load(open("/root/.vp/EVIDENCE.schema.json"))
for f in sorted(glob.glob("evidence/*.json")):
    try:
        jsonschema.validate(json.load(open(f)), sch); print(f, "ok")
    except Exception as e:
        ok = False; print(f, "INVALID", str(e)[:300])
sys.exit(0 if ok else 1)
