#!/venv/bin/python
"""Regenerates the per-seed table of DESIGN.md appendix B from seeded/*/meta.json and patch.diff."""
import json, os, re, sys
ROOT = os.path.dirname(os.path.dirname(os.path.abspath(__file__)))


def key(n):
    p, i = n.split("-")
    return (p, int(i))


def rows():
    for name in sorted(os.listdir(os.path.join(ROOT, "seeded")), key=key):
        d = os.path.join(ROOT, "seeded", name)
        meta = json.load(open(os.path.join(d, "meta.json")))
        files = sorted(set(re.findall(r"^\+\+\+ b/src/prov/(\S+)", open(os.path.join(d, "patch.diff")).read(), re.M)))
        needs = " ".join(str(meta.get("needs", "")).split())[:150].replace("|", "/")
        res = ", ".join("%s: %s" % (p, "caught" if r.get("caught") else "MISSED") for p, r in sorted(meta.get("checks", {}).items()))
        yield "| %s | %s | %s | %s |" % (name, ", ".join(files), needs, res)


def main():
    path = os.path.join(ROOT, "DESIGN.md")
    s = open(path).read()
    a = s.find("| seed | needs | result")
    if a < 0:
        a = s.index("| seed | touches (src/prov/) | needs | result")
    b = s.index("### C. Final budgets")
    table = "| seed | touches (src/prov/) | needs | result (quick tier, final checks) |\n|---|---|---|---|\n" + "\n".join(rows()) + "\n\n"
    open(path, "w").write(s[:a] + table + s[b:])
    print(table.count("\n") - 3, "rows")


if __name__ == "__main__":
    main()
