#!/venv/bin/python
"""Regenerate MANIFEST.json from the table below (kept valid against /root/.vp/MANIFEST.schema.json)."""
import json, os, subprocess
ROOT = os.path.dirname(os.path.dirname(os.path.abspath(__file__)))
ALL = ["C%02d" % i for i in range(1, 19)]
CLAIMED = {
 "C01": dict(technique="property-based round trip (Hypothesis recipes + exhaustively enumerated kind x mask x value core), strict URI-level kind-aware multiset oracle",
             text="Generated-input search: thousands of document recipes per run (every record kind, argument mask, value kind, namespace history, bundle scoping, json.dump option) are written as PROV-JSON, read back and compared with a strict canonical form the library's == cannot provide; an enumerated single-record core is covered exhaustively on every run. Exploration, not proof: a green run means no counterexample among the cases counted in the evidence.",
             note="Trusted: CPython, Hypothesis, stdlib json, the check's own canon() built on public accessors. Documents are bounded (<=16 ops, <=3 bundles, short names).", ref="4 C01"),
 "C03": dict(technique="stateful property-based testing (Hypothesis RuleBasedStateMachine) against a reference model of namespace intents",
             text="Model-based generation of namespace histories on a document and up to three bundles from deliberately colliding alphabets; after every step the observed prefix table must be monotone (b), every QualifiedName keeps its URI (a), and on generated print-and-resolve steps every name ever handed out by a scope must re-resolve to its URI (c). Histories shrink as one value and are saved as replay files.",
             note="Trusted: Hypothesis, the model (intents). Usage discipline of the statement enforced as rule precondition. Histories bounded to 40/50 steps, 4 scopes.", ref="4 C03"),
 "C04": dict(technique="property-based metamorphic testing: content-preserving transforms and single content-changing edits against a reference relation computed from abstract content",
             text="Pairs and chains of documents are generated with a known ground truth (same abstract content built differently, or content differing by exactly one edit of 14 kinds, or independent tiny documents); ==, != (both argument orders), reflexivity, transitivity, bundle equality, all record pairs with hash agreement, and prov-compare's exit status are compared with the reference relation.",
             note="Trusted: the reference relation lossy() (the statement's own identifications: sets, numeric value, instants). prov-compare is run on a sample (subprocess).", ref="4 C04"),
 "C05": dict(technique="property-based testing of call sequences against an intents model (entry-path metamorphic equality, refusal/no-op rule), with an enumerated kind x path x representation core",
             text="Every record kind is created through every entry path with every representation of every formal argument (exhaustively for single records, randomly in sequences with add_attributes / set_time / add_asserted_type / re-adds); after each step every record must equal the path-independent model, hold single QualifiedName/datetime formal values, refuse a different second formal value with ProvException without changing, and ignore a repeated one.",
             note="Trusted: the intents model; valid lexical forms only for native-typed literals. Sequences bounded to 8 ops after a fixed 9-op setup.", ref="4 C05"),
 "C08": dict(technique="property-based testing against a reference unification computed from abstract content (collision-biased generator), plus idempotence and purity relations",
             text="Recipes with forced identifier collisions (same kind with equal / subset / conflicting formal arguments, other kinds, other prefixes, inside bundles) are unified by the library and by a reference implementation over the intents; raise/no-raise, ordered strict content, bundle identifiers, idempotence, novelty of the result and immutability of the source are compared, for ProvDocument.unified() and ProvBundle.unified().",
             note="Trusted: the reference unification (60 lines over abstract content). Multi-member memberships (compatibility path) are outside the claim and discarded with a counter. Every run also enumerates record kind x formal argument x {same, omitted, conflicting} x {document, bundle} and performs lookups of absent identifiers before unifying.", ref="4 C08"),
 "C02": dict(technique="property-based round trip (Hypothesis recipes in the XML-expressible subspace + exhaustively enumerated value kind x attribute slot x record class x force_types core), strict URI-level kind-aware multiset oracle",
             text="As C01 for PROV-XML: recipes restricted by construction to the statement's XML-expressible subspace (re-checked on the built document), both force_types values, text and binary destinations, subtype prov:type values as names and as strings, default namespaces at both levels; compared after the round trip with the strict canonical form. The value/slot/record-class/force_types product is enumerated exhaustively in every run.",
             note="Trusted: canon(), the expressibility predicate (pbt/xmlx.py). Bounded document sizes.", ref="4 C02"),
 "C09": dict(technique="stateful property-based testing (RuleBasedStateMachine) against a multiset conservation model",
             text="A pool of documents built from random recipes is driven through update / add_bundle / bundle / flattened in random order; a model of multisets of canonical records per container is updated by the stated conservation law and every pool document (targets and arguments alike) is compared with its model after every step; each refusal must be a ProvException that changes nothing.",
             note="Trusted: the conservation model (intents + bag arithmetic). Histories bounded (14/20 steps, 5 documents, recipes of <= 7 ops).", ref="4 C09"),
 "C18": dict(technique="stateful property-based testing (RuleBasedStateMachine): index lookups versus a scan of the record list after every record-adding path",
             text="Every record-adding path (factories, new_record, add_record, update, add_bundle, constructor, JSON and XML deserialisation, unified, flattened) is exercised in random order on a document with bundles and a second document; after every step every container answers get_record(x) for every pool identifier in every accepted spelling, get_records(cls) for 23 class filters and the copy semantics of records/get_records(), all compared by object identity and order with a scan of get_records().",
             note="Trusted: the scan oracle (list comprehension over get_records()). Identifier pool of 4 URIs, histories of 25/30 steps.", ref="4 C18"),
 "C12": dict(technique="property-based aliasing test: deriving operation x follow-up mutation x side, snapshot of the untouched side (full grid enumerated + random recipes)",
             text="For 12 deriving operations (incl. documents converted from a graph, twice from one graph), 9 follow-up mutations and both sides, the untouched object's complete observable state (ordered strict content, registered namespaces, default namespace, per bundle) is snapshotted before and after mutating the other object; the 9x7x2 grid is enumerated on seed documents in every run and sampled on random recipes.",
             note="Trusted: snapshot() over public accessors. One mutation per case (no long mutation sequences).", ref="4 C12"),
 "C13": dict(technique="property-based purity/determinism test: random sequences of export calls, before/after snapshots, repeat and twin comparison",
             text="Random sequences over 40 exporter/option/destination combinations (JSON, XML, RDF, PROV-N, get_provn, str, graph, DOT, ==, !=, hash, unified, flattened) run on generated documents; after every call the complete observable state must be unchanged (also when the exporter raises), each text export must repeat identically and agree with a twin built by replaying the recipe (RDF: isomorphic graphs).",
             note="Trusted: snapshot() (public accessors, plus record.bundle links), rdflib.compare.isomorphic for RDF. RDF twin comparison sampled on documents with <= 6 records.", ref="4 C13"),
 "C14": dict(technique="property-based testing: node/edge census of prov_to_graph and content of graph_to_prov against a reference computed from abstract content (reference unification)",
             text="Bundle-free recipes over a small identifier pool produce declared/undeclared endpoints, parallel relations, self-loops, merged identifiers and undrawable relations; the expected node multiset (elements of the reference-unified content + one inferred node per undeclared endpoint of an allowed kind, outside any document) and edge multiset (one per drawable relation, first -> second argument, carrying the relation) are compared with the MultiDiGraph, and graph_to_prov with elements + drawable relations.",
             note="Trusted: reference unification (C08), own argument-position -> kind table. Influence relations with undeclared endpoints and conflicting unifications are discarded with counters.", ref="4 C14"),
 "C06": dict(technique="property-based differential testing against an independent PROV-N parser written from the W3C grammar (own expression/argument tables), strict URI-level multiset oracle",
             text="Generated documents (all kinds, masks, bundles with own declarations, every value kind, hostile strings) plus an exhaustively enumerated core are printed with get_provn(); the text must parse under an independent recursive-descent parser of the PROV-N grammar and the parsed content - identifiers, formal arguments by position, '-' markers, typed/language-tagged literals, names resolved through the printed declarations - must equal the document's strict canonical content.",
             note="Trusted: pbt/readers/provn.py (about 400 lines, shares nothing with prov) as reading of the Recommendation; bundle identifiers whose scope reading is ambiguous are not judged (counted).", ref="4 C06"),
 "C10": dict(technique="property-based differential testing against independent PROV-JSON and PROV-XML readers written from the specifications, plus structural validity predicates",
             text="The texts emitted for C01's and C02's generated documents (and both enumerated cores) are checked against structural rules of PROV-JSON / PROV-XML and read by independent readers with their own tables (statement names, formal keys, subtype elements, prefix scoping); the recovered content must equal the document's strict canonical content, so a symmetric writer/reader mistake or a renamed key is a violation even though the library's own round trip stays green.",
             note="Trusted: pbt/readers/provjson.py and provxml.py (stdlib json / xml.etree only). Ambiguous bundle-identifier scope is not judged (counted).", ref="4 C10"),
 "C07": dict(technique="property-based round trip inside a constructively generated PROV-O-expressible subspace + exhaustively enumerated relation kind x argument mask x identified x attribute-class core; set-based oracle against unified()",
             text="Documents are constructed so that every clause of the statement's quantifier holds (a post-pass drops or adjusts records that would violate one, with counters); they are written as TriG and read back; any exception is a violation, and per container the set of strict canonical records must equal that of unified(). The relation matrix (15 kinds x optional masks x identified x 5 attribute classes) and element x value kind x slot matrix are enumerated in every run.",
             note="Trusted: unified() (decided by C08), rdflib's TriG writer/parser; blank-node labels are pinned by the harness so that a case has one outcome. One open known finding (F-C07-1) is excluded by construction with a counter.", ref="4 C07"),
 "C16": dict(technique="property-based testing with a full per-document product over format x destination kind x source kind x detection mode; strict content oracle",
             text="For every generated document (intersection of the JSON/XML/RDF spaces, non-ASCII content) all 5 format variants are written to 4 destination kinds and compared, then read back from 5 source kinds with an explicit format and through prov.read from 3 source kinds with and without a format; every cell must reproduce the document's strict content (RDF: the unified set). Cell counters in the evidence show that no cell is empty.",
             note="Trusted: canon(); lxml C14N for XML text equality; rdflib isomorphism for RDF texts that differ only in blank-node labels. Plain file names only (C17 covers hostile names and faults). Format detection is also exercised in fresh child interpreters that have used at most one other format before prov.read().", ref="4 C16"),
 "C17": dict(category="fault_enumeration", technique="fault injection enumerated per generated case: every write-family and rename-family syscall of the call is failed once with strace -e inject, in a child process; exact file-name and all-or-nothing oracle on the directory listing and file bytes",
             text="The harness owns the fault schedule: for each case (format x file-name class with URL syntax x pre-existing destination x temp-directory placement x document size) a fault-free traced run takes the census of the syscalls that touch the scratch directories and then every one of them is failed once (ENOSPC/EIO/EACCES), plus a serialisation that raises half way. Fault-free the work directory must gain exactly the named file with the bytes of serialize(BytesIO); under a fault the destination must be byte-identical to its old content (or absent) when the exception propagates, or complete when the call returns.",
             note="Trusted: strace 6.1 syscall injection (ptrace), the child's exit-status protocol. Within a case the fault points are exhaustive; across cases the quick tier samples the product by VERIF_SEED and the thorough tier enumerates it (288 cases).", ref="4 C17"),
 "C15": dict(technique="property-based testing with Graphviz as acceptance oracle: generated hostile documents x 80 option combinations, structure parsed from `dot -Tdot_json` and compared with a census computed from the unified content",
             text="Documents whose identifiers, labels and values are drawn from a markup-hostile alphabet are rendered with prov_to_dot under sampled option combinations; Graphviz must accept the text, and the parsed structure must hold one labelled node per element record in its bundle's cluster, a node for every referenced name, exactly one correctly directed path (direct or through one point node) per relation with two endpoints and none without a relation, and annotation rows that are exactly attributes of the records.",
             note="Trusted: Graphviz 2.43 (parser and JSON output), unified() (C08). Layout, styles, node ids, the cluster of merely referenced names and relations lacking an endpoint are not asserted.", ref="4 C15"),
 "C11": dict(technique="property-based testing with a specification-driven generator of foreign PROV-JSON / PROV-XML dialects (own writers), structured single-point mutations of the 398+45 corpus files, and (thorough) coverage-guided fuzzing of mutation sequences with atheris; differential oracle against independent readers plus re-serialisation stability",
             text="Abstract content is rendered by this project's own writers in random dialects the library never emits, and corpus files are mutated at one point on their parsed structure; the library must refuse with a library error or load a document whose strict content equals the generator's content / the independent reader's content of the same text, and which is stable under rewrite in the same format and across formats. A text holding two values for a single-valued formal argument must be refused, never reduced.",
             note="Trusted: pbt/writers.py, pbt/readers/*. A run in which more than 20% of the specification-driven texts are refused ends inconclusive (exit 2), not green. The thorough tier adds a coverage-guided atheris/libFuzzer campaign over sequences of corpus mutations (skipped with a counter if atheris is not importable).", ref="4 C11"),
}
PENDING_REASON = "check not built yet in this round (design in DESIGN.md section 4); not claimed until the check exists and is quiet on the unchanged tree"
checks = []
for pid in ALL:
    if pid not in CLAIMED:
        continue
    c = CLAIMED[pid]
    checks.append({
        "property_id": pid,
        "quick_cmd": "./check %s quick" % pid,
        "thorough_cmd": "./check %s thorough" % pid,
        "evidence_file": "evidence/%s.json" % pid,
        "replay_cmd_template": "./check %s --replay {path}" % pid,
        "engine": "pbt",
        "level_claimed": {"category": c.get("category", "exploration"), "text": c["text"], "design_ref": "DESIGN.md section " + c["ref"]},
        "level_note": c["note"],
        "technique": c["technique"],
    })
fix_commits = subprocess.run(["git", "-C", "/repo", "log", "--format=%h %s"], capture_output=True, text=True).stdout.splitlines()
m = {
 "version": 1,
 "setup_cmd": "./setup.sh",
 "hooks": {"guard": "PROV_VERIF", "enable": "none needed: all observation points are public API, process boundaries or syscalls; checks import /repo/src directly (pure Python, no build step)",
           "baseline_off_cmd": "cd /repo && /venv/bin/python -m pytest -q -p no:cacheprovider --timeout=900 --continue-on-collection-errors",
           "source_commits": [], "add_only": True},
 "engines": [{"name": "pbt", "path": "pbt/", "serves_properties": [c["property_id"] for c in checks],
              "kind_free_text": "Hypothesis 6.168 property-based testing (recipes, stateful machines), enumerated finite cores, independent readers, fault injection; sharded over processes"}],
 "checks": checks,
 "notes": "fix: commits in /repo (genuine defects repaired, see known_findings.json): " + "; ".join(l for l in fix_commits if " fix:" in l),
 "not_applicable": [{"property_id": p, "reason": PENDING_REASON} for p in ALL if p not in CLAIMED],
}
json.dump(m, open(os.path.join(ROOT, "MANIFEST.json"), "w"), indent=1)
try:
    import jsonschema
    jsonschema.validate(m, json.load(open("/root/.vp/MANIFEST.schema.json")))
    print("MANIFEST.json valid; claimed:", [c["property_id"] for c in checks])
except ImportError:
    print("written (jsonschema not available to validate)")
