#!/venv/bin/python
"""Process sub-agent seeded changes.
  seeded.py ingest <dir with patch.diff demo.py meta.json> <name>   verify (demo passes before / fails after, baseline
                                                                     pass-set kept) and copy into /verif/seeded/<name>/
  seeded.py run [name ...] [--tier quick]                            run the property's check against each seeded tree
Scratch copies under /tmp/prov-seed-* are removed after use."""
import json, os, shutil, subprocess, sys, tempfile, time
ROOT = os.path.dirname(os.path.dirname(os.path.abspath(__file__)))
SEEDED = os.path.join(ROOT, "seeded")


def scratch(patch=None):
    d = tempfile.mkdtemp(prefix="prov-seed-")
    subprocess.run(["git", "-C", "/repo", "worktree", "add", "--detach", "-q", os.path.join(d, "wt"), "HEAD"], check=True)
    wt = os.path.join(d, "wt")
    if patch:
        p = subprocess.run(["git", "-C", wt, "apply", patch], capture_output=True, text=True)
        if p.returncode != 0:
            cleanup(d)
            raise RuntimeError("patch does not apply: " + p.stderr[:500])
    return d, wt


def cleanup(d):
    subprocess.run(["git", "-C", "/repo", "worktree", "remove", "--force", os.path.join(d, "wt")], capture_output=True)
    shutil.rmtree(d, ignore_errors=True)
    subprocess.run(["git", "-C", "/repo", "worktree", "prune"], capture_output=True)


def demo(wt, demo_py):
    env = dict(os.environ, PYTHONPATH=os.path.join(wt, "src"), PYTHONDONTWRITEBYTECODE="1")
    p = subprocess.run(["/venv/bin/python", demo_py], env=env, capture_output=True, text=True, cwd=os.path.dirname(demo_py), timeout=300)
    return p.returncode, (p.stdout + p.stderr)[-400:]


def ingest(src, name):
    patch, demo_py = os.path.join(src, "patch.diff"), os.path.join(src, "demo.py")
    meta = json.load(open(os.path.join(src, "meta.json")))
    d0, wt0 = scratch()
    try:
        rc0, out0 = demo(wt0, demo_py)
    finally:
        cleanup(d0)
    d1, wt1 = scratch(patch)
    try:
        rc1, out1 = demo(wt1, demo_py)
        b = subprocess.run([os.path.join(ROOT, "tests", "baseline.py"), wt1], capture_output=True, text=True)
    finally:
        cleanup(d1)
    ok = rc0 == 0 and rc1 != 0 and b.returncode == 0
    print("%s: demo clean rc=%d, patched rc=%d, baseline %s -> %s" % (name, rc0, rc1, b.stdout.splitlines()[0] if b.stdout else "?", "KEEP" if ok else "REJECT"))
    if not ok:
        print("   clean:", out0[-200:].replace("\n", " | ")); print("   patched:", out1[-200:].replace("\n", " | "))
        return False
    dst = os.path.join(SEEDED, name)
    os.makedirs(dst, exist_ok=True)
    shutil.copy(patch, dst); shutil.copy(demo_py, dst)
    meta["verified"] = {"demo_clean_rc": rc0, "demo_patched_rc": rc1, "baseline": b.stdout.splitlines()[0], "patched_output": out1[-300:]}
    json.dump(meta, open(os.path.join(dst, "meta.json"), "w"), indent=1)
    return True


def run(names, tier="quick", props=None):
    results = {}
    for name in names:
        dst = os.path.join(SEEDED, name)
        meta = json.load(open(os.path.join(dst, "meta.json")))
        plist = props or [meta["property"]]
        d, wt = scratch(os.path.join(dst, "patch.diff"))
        try:
            for pid in plist:
                ev = os.path.join(ROOT, "evidence", pid + ".json")
                saved = open(ev).read() if os.path.exists(ev) else None
                before = set(os.listdir(os.path.join(ROOT, "replays")))
                t0 = time.time()
                p = subprocess.run([os.path.join(ROOT, "check"), pid, tier], env=dict(os.environ, PROV_SRC=os.path.join(wt, "src")),
                                   capture_output=True, text=True, cwd=ROOT)
                caught = p.returncode == 1 and ("VIOLATION property=%s" % pid) in p.stdout
                buckets = [l.strip() for l in p.stdout.splitlines() if l.strip().startswith("bucket:")]
                print("%s vs %s %s: %s (rc=%d, %.0fs) %s" % (name, pid, tier, "CAUGHT" if caught else "MISSED", p.returncode, time.time() - t0, buckets[:2]), flush=True)
                if p.returncode == 2:
                    print("   ", p.stdout[-400:].replace("\n", " | "))
                results.setdefault(name, {})[pid] = {"caught": caught, "rc": p.returncode, "tier": tier, "buckets": buckets[:3]}
                if saved is not None:
                    open(ev, "w").write(saved)
                for f in set(os.listdir(os.path.join(ROOT, "replays"))) - before:
                    os.remove(os.path.join(ROOT, "replays", f))
        finally:
            cleanup(d)
        meta.setdefault("checks", {}).update(results[name])
        json.dump(meta, open(os.path.join(dst, "meta.json"), "w"), indent=1)
    return results


if __name__ == "__main__":
    if sys.argv[1] == "ingest":
        sys.exit(0 if ingest(sys.argv[2], sys.argv[3]) else 1)
    elif sys.argv[1] == "run":
        args = [a for a in sys.argv[2:] if not a.startswith("--")]
        tier = "thorough" if "--thorough" in sys.argv else "quick"
        props = None
        for a in sys.argv:
            if a.startswith("--props="):
                props = a.split("=", 1)[1].split(",")
        run(args or sorted(os.listdir(SEEDED)), tier, props)
