"""Hand-made breaking changes used to test the sensitivity of each check (each keeps the library importable).
(name, path relative to src/, old text, new text)"""
J = "prov/serializers/provjson.py"
M = "prov/model.py"
X = "prov/serializers/provxml.py"
MUTANTS = {
 "C01": [
  ("json-drop-lang", J, 'return {"$": value, "lang": langtag}', 'return {"$": value, "type": "xsd:string"}'),
  ("json-int-as-double", J, 'int: "xsd:int"', 'int: "xsd:double"'),
  ("json-anon-id-reuse", J, "self._count += 1\n            self._cache[obj]", "self._cache[obj]"),
  ("json-second-record-overwrites", J, "container[rec_label][identifier].append(record_json)", "container[rec_label][identifier] = record_json"),
  ("json-time-str", J, "record_json[attr_name] = first(values).isoformat()", "record_json[attr_name] = str(first(values))"),
  ("json-omit-default", J, 'prefixes["default"] = bundle._namespaces._default.uri', "pass"),
  ("json-bundle-id-doc-scope", J, "document.add_bundle(bundle, bundle.valid_qualified_name(bundle_id))", "document.add_bundle(bundle, document.valid_qualified_name(bundle_id))"),
  ("json-bool-as-literal-when-multi", J, "encode_json_representation(value) for value in values", "encode_json_representation(value) if not isinstance(value, bool) else str(value) for value in values"),
 ],
 "C03": [
  ("ns-revert-fixA-no-rehome", M, "return self.valid_qualified_name(parent_qname)", "return parent_qname"),
  ("ns-unused-prefix-returns-original", M, "                return new_prefix\n", "                return original_prefix\n"),
  ("ns-drop-uri-map", M, "        self._uri_map[uri] = namespace\n", "        pass\n"),
  ("ns-clash-overwrites", M, "            new_prefix = self._get_unused_prefix(prefix)\n", "            new_prefix = prefix\n"),
  ("ns-dn-not-registered", M, "                    dn_namespace = self.add_namespace(dn_namespace)\n", ""),
  ("ns-revert-replace", M, "return namespace[str_value[len(namespace.uri) :]]", 'return namespace[str_value.replace(namespace.uri, "")]'),
  ("ns-bundle-id-not-rehomed", M, "        b._identifier = b.valid_qualified_name(valid_id)\n", ""),
  ("ns-default-eq-ignores-uri", M, "                if self._default == namespace:", "                if self._default is not None:"),
 ],
 "C04": [
  ("eq-revert-identifier-fix", M, "        if self._identifier != other._identifier:\n", "        if self._identifier and not (self._identifier == other._identifier):\n"),
  ("eq-revert-bundle-count-fix", M, "        if len(self._bundles) != len(other._bundles):\n            return False\n", ""),
  ("eq-record-ignores-type", M, "        if self.get_type() != other.get_type():\n            return False\n", ""),
  ("eq-bundle-len-only", M, "        #  check if all records for equality\n        for record_a in this_records:", "        #  check if all records for equality\n        for record_a in []:"),
  ("eq-doc-ignores-bundle-content", M, "            if bundle != other_bundle:\n                return False\n", ""),
  ("hash-includes-bundle", M, "return hash((self.get_type(), self._identifier, frozenset(self.attributes)))", "return hash((self.get_type(), self._identifier, frozenset(self.attributes), id(self._bundle)))"),
  ("eq-attrs-subset", M, "        return set(self.attributes) == set(other.attributes)", "        return set(self.attributes) <= set(other.attributes)"),
  ("literal-eq-ignores-lang", M, "                and self._langtag == other.langtag\n", ""),
 ],
 "C05": [
  ("nf-revert-set_time", M, "self._attributes[PROV_ATTR_STARTTIME] = {_ensure_datetime(startTime)}", "self._attributes[PROV_ATTR_STARTTIME] = {startTime}"),
  ("nf-revert-asserted-type", M, "self._attributes[PROV_TYPE].add(self._auto_literal_conversion(type_identifier))", "self._attributes[PROV_TYPE].add(type_identifier)"),
  ("nf-revert-membership", M, "not (is_collection and attr == PROV_ATTR_ENTITY)", "not is_collection"),
  ("nf-no-single-value-guard", M, "                    if is_not_same_value:\n                        raise ProvException(", "                    if False:\n                        raise ProvException("),
  ("nf-same-value-raises", M, "                        is_not_same_value = value != existing_value\n", "                        is_not_same_value = True\n"),
  ("nf-long-not-converted", M, "    XSD_LONG: int,\n", ""),
  ("nf-usage-time-unparsed", M, "                PROV_ATTR_ACTIVITY: activity,\n                PROV_ATTR_ENTITY: entity,\n                PROV_ATTR_TIME: _ensure_datetime(time),", "                PROV_ATTR_ACTIVITY: activity,\n                PROV_ATTR_ENTITY: entity,\n                PROV_ATTR_TIME: time,"),
  ("nf-convenience-swaps-args", M, "self._bundle.delegation(\n            self, responsible, activity, other_attributes=attributes", "self._bundle.delegation(\n            responsible, self, activity, other_attributes=attributes"),
  ("nf-alias-wrong-target", M, "    wasInvalidatedBy = invalidation\n", "    wasInvalidatedBy = generation\n"),
  ("nf-record-arg-not-unwrapped", M, "                        original_value.identifier\n                        if isinstance(original_value, ProvRecord)\n                        else original_value", "                        original_value"),
 ],
 "C08": [
  ("uni-merge-only-second", M, "                    for record in records[1:]:\n                        merged.add_attributes(record.attributes)", "                    for record in records[1:2]:\n                        merged.add_attributes(record.attributes)"),
  ("uni-ignore-kind", M, "                records_by_type[record.get_type()].append(record)", "                records_by_type[None].append(record)"),
  ("uni-drop-bundles", M, "            unified_bundle = bundle.unified()\n            document.add_bundle(unified_bundle)", "            unified_bundle = bundle.unified()"),
  ("uni-return-self-when-nothing-merged", M, "        document = ProvDocument(self._unified_records())\n", "        if not self.bundles and len(self._unified_records()) == len(self._records):\n            return self\n        document = ProvDocument(self._unified_records())\n"),
  ("uni-swallow-conflict", M, "                        merged.add_attributes(record.attributes)\n", "                        try:\n                            merged.add_attributes(record.attributes)\n                        except ProvException:\n                            pass\n"),
  ("uni-merged-at-last-occurrence", M, "        for record in self._records:\n            if record in merged_records:", "        for record in reversed(self._records):\n            if record in merged_records:"),
  ("uni-bundle-not-unified", M, "            unified_bundle = bundle.unified()\n", "            unified_bundle = ProvBundle(records=bundle.get_records(), identifier=bundle.identifier)\n"),
  ("uni-copy-shares-attrs-mutates-source", M, "                    merged = records[0].copy()\n", "                    merged = records[0]\n"),
 ],
}
