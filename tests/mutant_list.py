"""Hand-made breaking changes used to test the sensitivity of each check (each keeps the library importable).
(name, path relative to src/, old text, new text)"""
J = "prov/serializers/provjson.py"
M = "prov/model.py"
X = "prov/serializers/provxml.py"
MUTANTS = {
 "C01": [
  ("json-drop-lang", J, 'return {"$": value, "lang": langtag}', 'return {"$": value, "type": "xsd:string"}'),
  ("json-int-as-double", J, 'int: "xsd:int"', 'int: "xsd:double"'),
  ("json-anon-id-reuse", J, "self._count += 1\n            self._cache[obj]", "self._cache[obj]"),
  ("json-second-record-overwrites", J, "container[rec_label][identifier].append(record_json)", "container[rec_label][identifier] = record_json"),
  ("json-time-str", J, "record_json[attr_name] = first(values).isoformat()", "record_json[attr_name] = str(first(values))"),
  ("json-omit-default", J, 'prefixes["default"] = bundle._namespaces._default.uri', "pass"),
  ("json-bundle-id-doc-scope", J, "document.add_bundle(bundle, bundle.valid_qualified_name(bundle_id))", "document.add_bundle(bundle, document.valid_qualified_name(bundle_id))"),
  ("json-bool-as-literal-when-multi", J, "encode_json_representation(value) for value in values", "encode_json_representation(value) if not isinstance(value, bool) else str(value) for value in values"),
 ],
 "C03": [
  ("ns-revert-fixA-no-rehome", M, "return self.valid_qualified_name(parent_qname)", "return parent_qname"),
  ("ns-unused-prefix-returns-original", M, "                return new_prefix\n", "                return original_prefix\n"),
  ("ns-drop-uri-map", M, "        self._uri_map[uri] = namespace\n", "        pass\n"),
  ("ns-clash-overwrites", M, "            new_prefix = self._get_unused_prefix(prefix)\n", "            new_prefix = prefix\n"),
  ("ns-dn-not-registered", M, "                    dn_namespace = self.add_namespace(dn_namespace)\n", ""),
  ("ns-revert-replace", M, "return namespace[str_value[len(namespace.uri) :]]", 'return namespace[str_value.replace(namespace.uri, "")]'),
  ("ns-bundle-id-not-rehomed", M, "        b._identifier = b.valid_qualified_name(valid_id)\n", ""),
  ("ns-default-eq-ignores-uri", M, "                if self._default == namespace:", "                if self._default is not None:"),
 ],
 "C04": [
  ("eq-revert-identifier-fix", M, "        if self._identifier != other._identifier:\n", "        if self._identifier and not (self._identifier == other._identifier):\n"),
  ("eq-revert-bundle-count-fix", M, "        if len(self._bundles) != len(other._bundles):\n            return False\n", ""),
  ("eq-record-ignores-type", M, "        if self.get_type() != other.get_type():\n            return False\n", ""),
  ("eq-bundle-len-only", M, "        #  check if all records for equality\n        for record_a in this_records:", "        #  check if all records for equality\n        for record_a in []:"),
  ("eq-doc-ignores-bundle-content", M, "            if bundle != other_bundle:\n                return False\n", ""),
  ("hash-includes-bundle", M, "return hash((self.get_type(), self._identifier, frozenset(self.attributes)))", "return hash((self.get_type(), self._identifier, frozenset(self.attributes), id(self._bundle)))"),
  ("eq-attrs-subset", M, "        return set(self.attributes) == set(other.attributes)", "        return set(self.attributes) <= set(other.attributes)"),
  ("literal-eq-ignores-lang", M, "                and self._langtag == other.langtag\n", ""),
 ],
 "C05": [
  ("nf-revert-set_time", M, "self._attributes[PROV_ATTR_STARTTIME] = {_ensure_datetime(startTime)}", "self._attributes[PROV_ATTR_STARTTIME] = {startTime}"),
  ("nf-revert-asserted-type", M, "self._attributes[PROV_TYPE].add(self._auto_literal_conversion(type_identifier))", "self._attributes[PROV_TYPE].add(type_identifier)"),
  ("nf-revert-membership", M, "not (is_collection and attr == PROV_ATTR_ENTITY)", "not is_collection"),
  ("nf-no-single-value-guard", M, "                    if is_not_same_value:\n                        raise ProvException(", "                    if False:\n                        raise ProvException("),
  ("nf-same-value-raises", M, "                        is_not_same_value = value != existing_value\n", "                        is_not_same_value = True\n"),
  ("nf-long-not-converted", M, "    XSD_LONG: int,\n", ""),
  ("nf-usage-time-unparsed", M, "                PROV_ATTR_ACTIVITY: activity,\n                PROV_ATTR_ENTITY: entity,\n                PROV_ATTR_TIME: _ensure_datetime(time),", "                PROV_ATTR_ACTIVITY: activity,\n                PROV_ATTR_ENTITY: entity,\n                PROV_ATTR_TIME: time,"),
  ("nf-convenience-swaps-args", M, "self._bundle.delegation(\n            self, responsible, activity, other_attributes=attributes", "self._bundle.delegation(\n            responsible, self, activity, other_attributes=attributes"),
  ("nf-alias-wrong-target", M, "    wasInvalidatedBy = invalidation\n", "    wasInvalidatedBy = generation\n"),
  ("nf-record-arg-not-unwrapped", M, "                        original_value.identifier\n                        if isinstance(original_value, ProvRecord)\n                        else original_value", "                        original_value"),
 ],
 "C08": [
  ("uni-merge-only-second", M, "                    for record in records[1:]:\n                        merged.add_attributes(record.attributes)", "                    for record in records[1:2]:\n                        merged.add_attributes(record.attributes)"),
  ("uni-ignore-kind", M, "                records_by_type[record.get_type()].append(record)", "                records_by_type[None].append(record)"),
  ("uni-drop-bundles", M, "            unified_bundle = bundle.unified()\n            document.add_bundle(unified_bundle)", "            unified_bundle = bundle.unified()"),
  ("uni-return-self-when-nothing-merged", M, "        document = ProvDocument(\n            namespaces=list(self._namespaces.get_registered_namespaces())\n        )\n", "        if not self.bundles and len(self._unified_records()) == len(self._records):\n            return self\n        document = ProvDocument(\n            namespaces=list(self._namespaces.get_registered_namespaces())\n        )\n"),
  ("uni-swallow-conflict", M, "                        merged.add_attributes(record.attributes)\n", "                        try:\n                            merged.add_attributes(record.attributes)\n                        except ProvException:\n                            pass\n"),
  ("uni-merged-at-last-occurrence", M, "        for record in self._records:\n            if record in merged_records:", "        for record in reversed(self._records):\n            if record in merged_records:"),
  ("uni-bundle-not-unified", M, "            unified_bundle = bundle.unified()\n", "            unified_bundle = ProvBundle(records=bundle.get_records(), identifier=bundle.identifier)\n"),
  ("uni-copy-shares-attrs-mutates-source", M, "                    merged = records[0].copy()\n", "                    merged = records[0]\n"),
 ],
 "C09": [
  ("upd-skip-bundles", M, "            if other.has_bundles():\n                for bundle in other.bundles:", "            if False:\n                for bundle in other.bundles:"),
  ("upd-merge-into-wrong-bundle", M, "                        self._bundles[bundle.identifier].update(bundle)", "                        next(iter(self._bundles.values())).update(bundle)"),
  ("flat-drops-doc-records", M, "            for record in itertools.chain(self._records, bundled_records):", "            for record in bundled_records:"),
  ("flat-skips-last-bundle", M, "                *[b.get_records() for b in self._bundles.values()]", "                *[b.get_records() for b in list(self._bundles.values())[:2]]"),
  ("addb-register-before-dup-check", M, "        if valid_id in self._bundles:\n            raise ProvException(\"A bundle with that identifier already exists\")\n\n        self._bundles[valid_id] = bundle", "        old = self._bundles.get(valid_id)\n        self._bundles[valid_id] = bundle\n        if old is not None:\n            raise ProvException(\"A bundle with that identifier already exists\")\n"),
  ("addb-accept-nested", M, "            if bundle.has_bundles():\n                raise ProvException(\n                    \"Cannot add a document with nested bundles as a bundle.\"\n                )", "            pass"),
  ("addrec-drops-extra-when-formal", M, "            record.formal_attributes,\n            record.extra_attributes,", "            record.formal_attributes,\n            record.extra_attributes if not record.is_relation() or len(record.extra_attributes) < 2 else record.extra_attributes[1:],"),
  ("upd-other-emptied", M, "            for record in other.get_records():\n                self.add_record(record)\n            if other.has_bundles():", "            for record in other.get_records():\n                self.add_record(record)\n            if other.has_bundles() and len(other._records) > 3:\n                other._records.pop()\n            if other.has_bundles():"),
 ],
 "C18": [
  ("idx-new_record-bypasses-index", M, "        self._add_record(new_record)\n        return new_record", "        if record_type == PROV_AGENT:\n            self._records.append(new_record)\n        else:\n            self._add_record(new_record)\n        return new_record"),
  ("idx-get_record-first-only", M, "            return self._id_map[valid_id]\n", "            return self._id_map[valid_id][:1]\n"),
  ("idx-get_records-by-exact-type", M, "return filter(lambda rec: isinstance(rec, class_or_type_or_tuple), results)", "return filter(lambda rec: type(rec) is class_or_type_or_tuple or (isinstance(class_or_type_or_tuple, tuple) and type(rec) in class_or_type_or_tuple), results)"),
  ("idx-records-returns-internal-list", M, "        return list(self._records)\n\n    #  Bundle configurations", "        return self._records\n\n    #  Bundle configurations"),
  ("idx-index-keyed-by-str", M, "            self._id_map[identifier].append(record)", "            self._id_map[str(identifier)].append(record)"),
  ("idx-unified-bundle-shares-index", M, "        bundle = ProvBundle(records=unified_records, identifier=self.identifier)\n        return bundle", "        bundle = ProvBundle(records=unified_records, identifier=self.identifier)\n        bundle._id_map = self._id_map\n        return bundle"),
  ("idx-get_records-returns-internal", M, "        results = list(self._records)\n        if class_or_type_or_tuple:", "        results = self._records\n        if class_or_type_or_tuple:"),
  ("idx-update-bypass", M, "            for record in other.get_records():\n                self.add_record(record)\n        else:\n            raise ProvException(\n                \"ProvBundle.update()", "            for record in other.get_records():\n                self._records.append(record)\n        else:\n            raise ProvException(\n                \"ProvBundle.update()"),
 ],
 "C02": [
  ("xml-revert-default-attr-name", X, "            if subel.prefix is not None\n            else sqname.localname,", "            if True\n            else sqname.localname,"),
  ("xml-revert-empty-text", X, '        text = subel.text if subel.text is not None else ""', "        text = subel.text"),
  ("xml-revert-subtype-base-check", X, "                and PROV_BASE_CLS[value] == rec_type\n", ""),
  ("xml-revert-bundle-default", X, "            nsmap[None] = bundle._namespaces._default.uri\n", "            pass\n"),
  ("xml-datetime-not-always-typed", X, "                    datetime.datetime,\n                    float,", "                    float,"),
  ("xml-forget-lang", X, "                    if value.langtag is not None:\n                        subelem.attrib[_ns_xml(\"lang\")] = value.langtag", "                    pass"),
  ("xml-subtype-removes-all-types", X, "                attributes.remove((key, value))\n                rec_label = FULL_NAMES_MAP[value]\n                break", "                attributes[:] = [a for a in attributes if a[0] != PROV_TYPE]\n                rec_label = FULL_NAMES_MAP[value]\n                break"),
  ("xml-int-as-long", X, "                        xsd_type = XSD_INT\n", "                        xsd_type = XSD_INTEGER\n"),
  ("xml-ref-for-non-reference-qname", X, "                    if attr not in PROV_ATTRIBUTE_QNAMES:\n                        subelem.attrib[_ns_xsi(\"type\")] = \"xsd:QName\"", "                    if attr not in PROV_ATTRIBUTE_QNAMES and attr != PROV_ROLE:\n                        subelem.attrib[_ns_xsi(\"type\")] = \"xsd:QName\""),
 ],
 "C13": [
  ("pure-xml-writer-edits-record", X, "            attributes = list(record.attributes)\n            rec_label = self._derive_record_label(rec_type, attributes)", "            attributes = list(record.attributes)\n            rec_label = self._derive_record_label(rec_type, attributes)\n            if rec_label != FULL_NAMES_MAP[rec_type]:\n                record._attributes[PROV_TYPE] = {v for k, v in attributes if k == PROV_TYPE}"),
  ("pure-json-registers-namespace", J, "    id_generator = AnonymousIDGenerator()\n", "    id_generator = AnonymousIDGenerator()\n    if bundle._records:\n        bundle.add_namespace('prov_json', 'https://openprovenance.org/prov-json/')\n"),
  ("pure-provn-sorts-records", M, "        lines.extend([record.get_provn() for record in self._records])", "        self._records.sort(key=lambda r: (r.is_relation(), ))\n        lines.extend([record.get_provn() for record in self._records])"),
  ("pure-json-anon-id-by-object-id", J, 'self._cache[obj] = Identifier("_:%s%d" % (local_prefix, self._count))', 'self._cache[obj] = Identifier("_:%s%d" % (local_prefix, id(obj) % 100000))'),
  ("pure-eq-consumes-records", M, "        other_records = set(other.get_records())\n        this_records = set(self.get_records())", "        other_records = set(other.get_records())\n        this_records = set(self.get_records())\n        if len(self._records) > len(this_records):\n            self._records = list(this_records)"),
  ("pure-graph-adopts-default-ns", "prov/graph.py", "    unified = prov_document.unified()\n", "    unified = prov_document.unified()\n    if prov_document.get_default_namespace() is None and prov_document.bundles:\n        prov_document.set_default_namespace('urn:graph:')\n"),
  ("pure-flattened-reparents", M, "            for record in itertools.chain(self._records, bundled_records):\n                new_doc.add_record(record)", "            for record in itertools.chain(self._records, bundled_records):\n                new_doc.add_record(record)\n                record._bundle = new_doc if record.is_relation() and record.identifier is None else record._bundle"),
 ],
 "C14": [
  ("g-edge-reversed", "prov/graph.py", "g.add_edge(node_map[qn1], node_map[qn2], relation=relation)", "g.add_edge(node_map[qn2], node_map[qn1], relation=relation)"),
  ("g-digraph-not-multi", "prov/graph.py", "    g = nx.MultiDiGraph()\n    unified", "    g = nx.DiGraph()\n    unified"),
  ("g-inferred-node-has-bundle", "prov/graph.py", "node_map[qn1] = INFERRED_ELEMENT_CLASS[attr_pair_1[0]](None, qn1)", "node_map[qn1] = INFERRED_ELEMENT_CLASS[attr_pair_1[0]](unified, qn1)"),
  ("g-skip-self-loops", "prov/graph.py", "        if qn1 and qn2:  # only proceed", "        if qn1 and qn2 and qn1 != qn2:  # only proceed"),
  ("g-takes-args-2-3", "prov/graph.py", "relation.formal_attributes[:2]", "relation.formal_attributes[1:3] if len(relation.formal_attributes) > 3 else relation.formal_attributes[:2]"),
  ("g-wrong-inferred-kind", "prov/graph.py", "    PROV_ATTR_TRIGGER: ProvEntity,", "    PROV_ATTR_TRIGGER: ProvActivity,"),
  ("g-back-drops-attr-less-nodes", "prov/graph.py", "        if isinstance(n, ProvRecord) and n.bundle is not None:", "        if isinstance(n, ProvRecord) and n.bundle is not None and (n.attributes or g.degree(n)):"),
  ("g-not-unified", "prov/graph.py", "    unified = prov_document.unified()\n", "    unified = prov_document\n"),
 ],
 "C06": [
  ("pn-revert-backslash", M, 's = s.replace("\\\\", "\\\\\\\\").replace(\'"\', \'\\\\"\').replace("\\r", "\\\\r")', 's = s.replace(\'"\', \'\\\\"\')'),
  ("pn-revert-float", M, """return '"%s" %%%% xsd:double' % repr(value)""", """return '"%g" %%%% xsd:float' % value"""),
  ("pn-swap-formal-order-usage", M, "    FORMAL_ATTRIBUTES = (PROV_ATTR_ACTIVITY, PROV_ATTR_ENTITY, PROV_ATTR_TIME)\n\n    _prov_type = PROV_USAGE", "    FORMAL_ATTRIBUTES = (PROV_ATTR_ENTITY, PROV_ATTR_ACTIVITY, PROV_ATTR_TIME)\n\n    _prov_type = PROV_USAGE"),
  ("pn-no-semicolon-after-id", M, '                relation_id = identifier + "; "', '                relation_id = identifier + ", "'),
  ("pn-dash-for-present-third-arg", M, "        for attr in self.FORMAL_ATTRIBUTES:\n            if attr in self._attributes and self._attributes[attr]:", "        for attr in self.FORMAL_ATTRIBUTES:\n            if attr in self._attributes and self._attributes[attr] and not (attr == PROV_ATTR_PLAN):"),
  ("pn-drop-default-line", M, '            lines.append("default <%s>" % default_namespace.uri)', "            pass"),
  ("pn-name-typo", "prov/constants.py", '    PROV_COMMUNICATION: "wasInformedBy",\n    PROV_START', '    PROV_COMMUNICATION: "wasInformedby",\n    PROV_START'),
  ("pn-no-quote-escape", M, """.replace('"', '\\\\"').replace("\\r", "\\\\r")""", """.replace("\\r", "\\\\r")"""),
  ("pn-bool-as-python-str", M, """        return '"%i" %%%% xsd:boolean' % value""", """        return '"%s" %%%% xsd:boolean' % value"""),
  ("pn-lang-literal-without-tag-when-empty", M, "        if self._langtag:\n            # a language tag can only go with prov:InternationalizedString\n            return \"%s@%s\" % (", "        if self._langtag and self._value:\n            # a language tag can only go with prov:InternationalizedString\n            return \"%s@%s\" % ("),
 ],
 "C10": [
  # symmetric in writer and reader (both consult PROV_BASE_CLS): invisible to the C02 round trip, C10s independent reader sees it
  ("xml-person-maps-to-entity", "prov/constants.py", '    PROV["Person"]: PROV_AGENT,', '    PROV["Person"]: PROV_ENTITY,'),
  ("sym-json-swap-informed-informant-both-sides", [
     (J, "                attr_name = str(attr)\n", "                attr_name = {'prov:informed': 'prov:informant', 'prov:informant': 'prov:informed'}.get(str(attr), str(attr))\n"),
     (J, "                    attr = (\n                        PROV_ATTRIBUTES_ID_MAP[attr_name]", "                    attr_name = {'prov:informed': 'prov:informant', 'prov:informant': 'prov:informed'}.get(attr_name, attr_name)\n                    attr = (\n                        PROV_ATTRIBUTES_ID_MAP[attr_name]")]),
  ("sym-name-table-typo", "prov/constants.py", '    PROV_DERIVATION: "wasDerivedFrom",', '    PROV_DERIVATION: "wasDerivedfrom",'),
  ("sym-xml-person-is-entity", "prov/constants.py", '    PROV["Person"]: PROV_AGENT,', '    PROV["Person"]: PROV_ENTITY,'),
  ("xml-ref-on-type", X, "                if attr in PROV_ATTRIBUTE_QNAMES and v:\n                    subelem.attrib[_ns_prov(\"ref\")] = v", "                if (attr in PROV_ATTRIBUTE_QNAMES or (attr == PROV_TYPE and isinstance(value, prov.model.QualifiedName))) and v:\n                    subelem.attrib[_ns_prov(\"ref\")] = v"),
  ("xml-child-order", M, "    order.extend([PROV_LABEL, PROV_LOCATION, PROV_ROLE, PROV_TYPE, PROV_VALUE])", "    order.extend([PROV_TYPE, PROV_LABEL, PROV_LOCATION, PROV_ROLE, PROV_VALUE])"),
  ("json-bundle-key-plural", J, '        container["bundle"][str(bundle.identifier)] = bundle_json', '        container["bundles"][str(bundle.identifier)] = bundle_json'),
  ("json-formal-as-typed-object", J, "                    record_json[attr_name] = str(first(values))\n", "                    record_json[attr_name] = {'$': str(first(values)), 'type': 'prov:QUALIFIED_NAME'}\n"),
  ("xml-bundle-id-attr-unqualified", X, '            xml_bundle_root.attrib[_ns_prov("id")] = str(bundle.identifier)', '            xml_bundle_root.attrib["id"] = str(bundle.identifier)'),
  ("json-time-str-form", J, "record_json[attr_name] = first(values).isoformat()", "record_json[attr_name] = str(first(values))"),
 ],
 "C07": [
  ("rdf-revert-empty-literal", "prov/serializers/provrdf.py", "    value = str(literal.value)\n", "    value = str(literal.value) if literal.value else literal\n"),
  ("rdf-drop-hadRole-rewrite", "prov/serializers/provrdf.py", '                            elif attr == PROV["role"]:\n                                pred = URIRef(PROV["hadRole"].uri)', '                            elif False:\n                                pred = URIRef(PROV["hadRole"].uri)'),
  ("rdf-no-atTime-mapping", "prov/serializers/provrdf.py", '    URIRef(PROV["atTime"].uri): PROV_ATTR_TIME,\n', ""),
  ("rdf-alternate-not-swapped-on-write", "prov/serializers/provrdf.py", "                                    if rec_type == PROV_ALTERNATE:\n                                        subj, obj_val = obj_val, subj\n", ""),
  ("rdf-bundle-prefixes-only-on-bundle-graph", "prov/serializers/provrdf.py", "        for namespace in bundle.namespaces:\n            container.bind(namespace.prefix, namespace.uri)", "        for namespace in (bundle.namespaces if identifier is None else []):\n            container.bind(namespace.prefix, namespace.uri)"),
  ("rdf-int-as-string", "prov/serializers/provrdf.py", '    int: XSD["int"],\n', '    int: XSD["string"],\n'),
  ("rdf-starter-becomes-trigger", "prov/serializers/provrdf.py", '                if ids[id] in [PROV_START] and "activity" in str(pred_new):\n                    pred_new = PROV_ATTR_STARTER', '                if ids[id] in [PROV_START] and "activity" in str(pred_new):\n                    pred_new = PROV_ATTR_TRIGGER'),
  ("rdf-lang-dropped-on-read", "prov/serializers/provrdf.py", "                return pm.Literal(value, self.valid_identifier(datatype), langtag)", "                return pm.Literal(value, self.valid_identifier(datatype), None)"),
  ("rdf-derivation-usage-lost", "prov/serializers/provrdf.py", '                                if PROV["usage"].uri in pred:\n                                    pred = URIRef(PROV["hadUsage"].uri)', '                                if PROV["usage"].uri in pred:\n                                    pred = URIRef(PROV["hadGeneration"].uri)'),
  ("rdf-bundle-records-into-document", "prov/serializers/provrdf.py", "                    bundle = document.bundle(bundle_id)\n                    self.decode_container(\n                        graph,\n                        bundle,", "                    bundle = document.bundle(bundle_id)\n                    self.decode_container(\n                        graph,\n                        bundle if len(graph) > 3 else document,"),
 ],
 "C16": [
  ("io-revert-read-stream-fix", "prov/__init__.py", "            return ProvDocument.deserialize(source=get_source(), format=format)", "            return ProvDocument.deserialize(source=source, format=format)"),
  ("io-json-binary-latin1", J, '                stream.write(buf.read().encode("utf-8"))', '                stream.write(buf.read().encode("latin-1", "replace"))'),
  ("io-path-opened-ascii", M, "                with open(source) as f:\n                    return serializer.deserialize(f, **args)", "                with open(source, encoding='ascii', errors='replace') as f:\n                    return serializer.deserialize(f, **args)"),
  ("io-provn-binary-not-encoded-utf8", "prov/serializers/provn.py", '            provn_content = provn_content.encode("utf-8")', '            provn_content = provn_content.encode("utf-16")'),
  ("io-content-bytes-decoded-latin1", M, "content if isinstance(content, str) else content.decode()", "content if isinstance(content, str) else content.decode('latin-1')"),
  ("io-rdf-text-stream-ascii", "prov/serializers/provrdf.py", '                stream.write(buf.read().decode("utf-8"))', '                stream.write(buf.read().decode("ascii", "ignore"))'),
  ("io-xml-binary-stream-read-drops-bom-handling", X, "            xml_doc = etree.parse(stream).getroot()\n\n        # Remove all comments.", "            xml_doc = etree.fromstring(stream.read().decode('utf-8').encode('ascii', 'ignore')).getroottree().getroot()\n\n        # Remove all comments."),
  ("io-read-format-order-rdf-first", "prov/serializers/__init__.py", '            "json": ProvJSONSerializer,\n            "rdf": ProvRDFSerializer,', '            "rdf": ProvRDFSerializer,\n            "json": ProvJSONSerializer,'),
 ],
}

_ATOMIC = """            fd, name = tempfile.mkstemp(
                dir=os.path.dirname(os.path.abspath(path)), prefix=".prov-tmp-"
            )
            try:
                with os.fdopen(fd, "wb") as stream:
                    serializer.serialize(stream, **args)
                os.replace(name, path)
            except BaseException:
                try:
                    os.remove(name)
                except OSError:
                    pass
                raise
"""
MUTANTS["C17"] = [
  ("file-revert-name-fix", M, '            if scheme != "file":\n', '            if False:\n'),
  ("file-revert-atomic-fix", M, _ATOMIC, """            fd, name = tempfile.mkstemp()
            stream = os.fdopen(fd, "wb")
            serializer.serialize(stream, **args)
            stream.close()
            shutil.move(name, path)
"""),
  ("file-direct-write", M, _ATOMIC, """            with open(path, "wb") as stream:
                serializer.serialize(stream, **args)
"""),
  ("file-swallow-exception", M, "                except OSError:\n                    pass\n                raise\n", "                except OSError:\n                    pass\n"),
  ("file-replace-before-close", M, '                with os.fdopen(fd, "wb") as stream:\n                    serializer.serialize(stream, **args)\n                os.replace(name, path)', '                with os.fdopen(fd, "wb") as stream:\n                    serializer.serialize(stream, **args)\n                    os.replace(name, path)'),
  ("file-copy-instead-of-replace", M, '                os.replace(name, path)\n            except BaseException:', '                shutil.copyfile(name, path)\n                os.remove(name)\n            except BaseException:'),
  ("file-percent-decoded", M, "                path = location\n", "                path = location.replace('%41', 'A')\n"),
]

MUTANTS["C15"] = [
  ("dot-revert-html-escape-label", "prov/dot.py", 'f"<{escape(str(record.label))}<br />"', 'f"<{record.label}<br />"'),
  ("dot-revert-quote-escape", "prov/dot.py", """    return '"%s"' % str(value).replace("\\\\", "\\\\\\\\").replace('"', '\\\\"')""", """    return '"%s"' % str(value)"""),
  ("dot-annotation-value-unescaped", "prov/dot.py", "                    escape(\n                        str(value)\n                        if not isinstance(value, datetime)\n                        else str(value.isoformat())\n                    ),", "                    (\n                        str(value)\n                        if not isinstance(value, datetime)\n                        else str(value.isoformat())\n                    ),"),
  ("dot-second-segment-to-first-node", "prov/dot.py", "pydot.Edge(bnode, _get_node(nodes[1], inferred_types[1]), **style)", "pydot.Edge(bnode, _get_node(nodes[0], inferred_types[0]), **style)"),
  ("dot-no-cluster-for-bundles", "prov/dot.py", "            _bundle_to_dot(subdot, bundle)\n            dot.add_subgraph(subdot)", "            _bundle_to_dot(dot, bundle)"),
  ("dot-binary-edge-reversed", "prov/dot.py", "                        _get_node(nodes[0], inferred_types[0]),\n                        _get_node(nodes[1], inferred_types[1]),\n                        **style,", "                        _get_node(nodes[1], inferred_types[1]),\n                        _get_node(nodes[0], inferred_types[0]),\n                        **style,"),
  ("dot-drop-attrs-of-relations-with-time-only", "prov/dot.py", "            add_attribute_annotation = show_relation_attributes and other_attributes", "            add_attribute_annotation = show_relation_attributes and len(other_attributes) > 1"),
  ("dot-reuse-node-for-known-uri", "prov/dot.py", "        def _add_node(record):\n            count[0] += 1", "        def _add_node(record):\n            if record.identifier.uri in node_map and not record.attributes:\n                return node_map[record.identifier.uri]\n            count[0] += 1"),
]

MUTANTS["C11"] = [
  ("fr-json-drop-membership-expansion", J, "                if membership_extra_members:\n", "                if False:\n"),
  ("fr-json-multi-formal-takes-first", J, "                                    logger.error(error_msg)\n                                    raise ProvJSONException(error_msg)", "                                    value = values[0]"),
  ("fr-xml-ignore-xsi-type-on-record", X, '            if _ns_xsi("type") in element.attrib:\n', '            if False:\n'),
  ("fr-json-ignore-lang", J, '        langtag = literal["lang"] if "lang" in literal else None', '        langtag = None'),
  ("fr-xml-revert-membership-expansion", X, "                for member in members[1:]:\n                    attributes.remove(member)\n                    extra_members.append(member[1])", "                pass"),
  ("fr-xml-revert-comment-fix", X, "            if p is not None:\n                # (a comment before or after the root element has no parent)\n                p.remove(c)", "            p.remove(c)"),
  ("fr-xml-revert-default-ns-datatype", X, '                        subelem.attrib[_ns_xsi("type")] = str(value.datatype)', '                        subelem.attrib[_ns_xsi("type")] = "%s:%s" % (value.datatype.namespace.prefix, value.datatype.localpart)'),
  ("fr-json-typed-string-number-kept-literal", M, "    XSD_INT: int,\n", ""),
  ("fr-json-bundle-prefix-not-inherited", J, "        bundle = ProvBundle(document=document)\n", "        bundle = ProvBundle()\n"),
  ("fr-xml-subtype-type-not-added", X, "            if rec_type != q_prov_name:\n                rec.add_asserted_type(q_prov_name)", "            if False:\n                rec.add_asserted_type(q_prov_name)"),
]
