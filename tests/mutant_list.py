"""Hand-made breaking changes used to test the sensitivity of each check (each keeps the library importable).
(name, path relative to src/, old text, new text)"""
J = "prov/serializers/provjson.py"
M = "prov/model.py"
X = "prov/serializers/provxml.py"
MUTANTS = {
 "C01": [
  ("json-drop-lang", J, 'return {"$": value, "lang": langtag}', 'return {"$": value, "type": "xsd:string"}'),
  ("json-int-as-double", J, 'int: "xsd:int"', 'int: "xsd:double"'),
  ("json-anon-id-reuse", J, "self._count += 1\n            self._cache[obj]", "self._cache[obj]"),
  ("json-second-record-overwrites", J, "container[rec_label][identifier].append(record_json)", "container[rec_label][identifier] = record_json"),
  ("json-time-str", J, "record_json[attr_name] = first(values).isoformat()", "record_json[attr_name] = str(first(values))"),
  ("json-omit-default", J, 'prefixes["default"] = bundle._namespaces._default.uri', "pass"),
  ("json-bundle-id-doc-scope", J, "document.add_bundle(bundle, bundle.valid_qualified_name(bundle_id))", "document.add_bundle(bundle, document.valid_qualified_name(bundle_id))"),
  ("json-bool-as-literal-when-multi", J, "encode_json_representation(value) for value in values", "encode_json_representation(value) if not isinstance(value, bool) else str(value) for value in values"),
 ],
}
