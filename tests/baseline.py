#!/venv/bin/python
"""Run the repository's pinned suite and compare the set of passing tests with BASELINE.json's stable_pass.
usage: baseline.py [repo_dir]   (exit 0 iff every stable_pass test passes)"""
import json, os, subprocess, sys, tempfile, xml.etree.ElementTree as ET
repo = sys.argv[1] if len(sys.argv) > 1 else "/repo"
base = json.load(open("/root/.vp/BASELINE.json"))
stable = set(base["stable_pass"])
fd, path = tempfile.mkstemp(suffix=".xml"); os.close(fd)
env = dict(os.environ); env.pop("PROV_VERIF", None); env["PYTHONPATH"] = os.path.join(repo, "src"); env["PYTHONDONTWRITEBYTECODE"] = "1"
p = subprocess.run(["/venv/bin/python", "-m", "pytest", "-q", "-p", "no:cacheprovider", "--timeout=900", "-x" if False else "-q",
                    "--continue-on-collection-errors", "-n", os.environ.get("BASELINE_PROCS", "8"), "--junitxml=" + path],
                   cwd=repo, env=env, capture_output=True, text=True)
passed = set()
for tc in ET.parse(path).getroot().iter("testcase"):
    if not any(c.tag in ("failure", "error", "skipped") for c in tc):
        passed.add("%s::%s" % (tc.get("classname"), tc.get("name")))
os.remove(path)
missing = sorted(stable - passed)
print("stable_pass=%d passed_now=%d missing=%d new_passes=%d" % (len(stable), len(passed), len(missing), len(passed - stable)))
for m in missing[:40]:
    print("  NOT PASSING:", m)
sys.exit(1 if missing else 0)
