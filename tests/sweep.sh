#!/bin/sh
# run every quick check at the given seeds on the current tree; print one line per run, details for non-zero exits
cd "$(dirname "$0")/.." || exit 2
for seed in "$@"; do
  for i in 01 02 03 04 05 06 07 08 09 10 11 12 13 14 15 16 17 18; do
    out=$(VERIF_SEED=$seed ./check C$i quick 2>&1); rc=$?
    echo "seed=$seed C$i rc=$rc $(echo "$out" | grep -E "^C$i quick" | tail -1)"
    if [ $rc -ne 0 ]; then echo "$out" | grep -E "bucket|diff|VIOLATION|HARNESS" | head -12; fi
  done
done
