#!/venv/bin/python
"""Sensitivity runs: apply each listed mutant to a scratch copy of /repo/src, run the quick check against the
copy (PROV_SRC), expect a VIOLATION.  usage: mutants.py [ID ...] [--baseline] [--tier quick]
Scratch copies live under /tmp/prov-mut-* and are removed after use."""
import json, os, shutil, subprocess, sys, tempfile, time
ROOT = os.path.dirname(os.path.dirname(os.path.abspath(__file__)))
sys.path.insert(0, os.path.join(ROOT, "tests"))
from mutant_list import MUTANTS  # {ID: [(name, relpath, old, new), ...]}

def run(pid, name, rel, old=None, new=None, baseline=False):
    edits = rel if isinstance(rel, list) else [(rel, old, new)]
    d = tempfile.mkdtemp(prefix="prov-mut-")
    try:
        shutil.copytree("/repo/src", os.path.join(d, "src"), ignore=shutil.ignore_patterns("__pycache__"))
        for extra in ("scripts", "setup.py", "setup.cfg", "pytest.ini", "tox.ini", "conftest.py"):
            p = os.path.join("/repo", extra)
            if os.path.isdir(p): shutil.copytree(p, os.path.join(d, extra))
            elif os.path.exists(p): shutil.copy(p, d)
        for rel, old, new in edits:
            path = os.path.join(d, "src", rel)
            s = open(path).read()
            if s.count(old) < 1:
                return name, "STALE(old text not found)", 0
            open(path, "w").write(s.replace(old, new, 1))
        env = dict(os.environ, PROV_SRC=os.path.join(d, "src"))
        t0 = time.time()
        p = subprocess.run([os.path.join(ROOT, "check"), pid, "quick"], env=env, capture_output=True, text=True, cwd=ROOT)
        caught = "VIOLATION property=%s" % pid in p.stdout
        res = "caught" if (caught and p.returncode == 1) else "MISSED(rc=%d)" % p.returncode
        if not caught and p.returncode == 2:
            res += " " + p.stdout[-300:].replace("\n", " | ")
        if baseline:
            b = subprocess.run([os.path.join(ROOT, "tests", "baseline.py"), d], capture_output=True, text=True)
            res += " baseline=" + ("ok" if b.returncode == 0 else "BROKEN " + b.stdout.splitlines()[0])
        return name, res, time.time() - t0
    finally:
        shutil.rmtree(d, ignore_errors=True)

if __name__ == "__main__":
    args = [a for a in sys.argv[1:] if not a.startswith("--")]
    baseline = "--baseline" in sys.argv
    ids = args or sorted(MUTANTS)
    saved = {}
    replays_before = set(os.listdir(os.path.join(ROOT, "replays")))
    # evidence files are rewritten by runs against mutants: save and restore them
    for pid in ids:
        ev = os.path.join(ROOT, "evidence", pid + ".json")
        saved[pid] = open(ev).read() if os.path.exists(ev) else None
    for pid in ids:
        for m in MUTANTS.get(pid, []):
            name, res, dt = run(pid, *m, baseline=baseline)
            print("%s %-40s %s (%.0fs)" % (pid, name, res, dt), flush=True)
        ev = os.path.join(ROOT, "evidence", pid + ".json")
        if saved[pid] is not None:
            open(ev, "w").write(saved[pid])
    # replays written by mutant runs are not kept
    for f in set(os.listdir(os.path.join(ROOT, "replays"))) - replays_before:
        os.remove(os.path.join(ROOT, "replays", f))
