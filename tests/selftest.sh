#!/bin/sh
# Seconds-long replay tier: every saved replay of a repaired defect must pass on the current tree (a `fixed:` entry
# suppresses nothing - if one of these fails again the defect is back), every witness of an open known finding must
# replay without an UNLISTED violation.
cd "$(dirname "$0")/.." || exit 2
rc=0
for f in replays/fixed/*.json replays/F-*.json; do
  id=$(basename "$f" | sed -e 's/^F-//' -e 's/-.*//')
  out=$(./check "$id" --replay "$f" 2>&1 | tail -1)
  case "$out" in
    REPLAY\ OK*) echo "ok   $f" ;;
    *) echo "FAIL $f: $out"; rc=1 ;;
  esac
done
exit $rc
